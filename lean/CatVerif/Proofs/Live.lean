/-
  Liveness of `cat_service` (C15): a measure on states that every call decreases as long as the
  input delivers nothing, the output accepts every byte, the mutex calls succeed and the handlers
  give final answers — until the call reports OK.  The measure is an explicit expression in the
  table size, the buffer capacities, the number of variables and the number of queued events.
-/
import CatVerif.Proofs.NoOobHist
import CatVerif.Proofs.Quiesce
import CatVerif.Model.Measure
namespace Cat
open St

/-! ### how many variables a command can have -/

theorem le_sum_of_mem (l : List Nat) (x : Nat) (h : x ∈ l) : x ≤ l.sum := by
  induction l with
  | nil => simp at h
  | cons a t ih =>
    simp only [List.mem_cons] at h
    simp only [List.sum_cons]
    rcases h with h | h
    · omega
    · have := ih h; omega

theorem cmdByIndex_mem : ∀ (gs : List GroupD) (i : Nat) (c : CmdD), cmdByIndex gs i = some c → c ∈ gs.flatMap (·.cmds) := by
  intro gs
  induction gs with
  | nil => intro i c h; simp [cmdByIndex] at h
  | cons g r ih =>
    intro i c h
    simp only [cmdByIndex] at h
    simp only [List.flatMap_cons, List.mem_append]
    split at h
    · exact Or.inr (ih _ c h)
    · exact Or.inl (List.mem_of_getElem? h)

theorem varNum_le (D : Desc) (id : Option Nat) : (D.cmdD id).varNum ≤ D.vars := by
  cases id with
  | none => simp [Desc.cmdD, CmdD.varNum]; exact Nat.zero_le _
  | some k =>
    simp only [Desc.cmdD]
    cases h : D.cmd? k with
    | none => simp [CmdD.varNum]; exact Nat.zero_le _
    | some c =>
      simp only [Option.getD_some]
      apply le_sum_of_mem
      apply List.mem_map_of_mem
      unfold Desc.cmd? at h
      unfold Desc.allCmds
      split at h
      · exact List.mem_append_left _ (cmdByIndex_mem _ _ _ h)
      · exact List.mem_append_right _ (List.mem_of_getElem? h)

/-! ### leaves -/

theorem nlOff_le (s : St) : nlOff s ≤ 1 := by unfold nlOff; split <;> omega

theorem muC_startFlush (D : Desc) (t : St) (a : After) :
    muC D (startFlush t .cmd a) ≤ FL D.cmdCap + aftOf D a t.index t.cmdType := by
  have := nlOff_le t
  simp only [muC, startFlush, St.emit, aftC, stepsLeft, FL]
  omega

theorem muC_ack (D : Desc) (t : St) : muC D (ackOk D t) ≤ D.ACKF ∧ muC D (ackError D t) ≤ D.ACKF := by
  constructor
  · have := muC_startFlush D ((strncpyC D t [79, 75]).emit (.ack true)) .reset
    simpa [ackOk, Desc.ACKF, aftOf] using this
  · have := muC_startFlush D ((strncpyC D t [69, 82, 82, 79, 82]).emit (.ack false)) .reset
    simpa [ackError, Desc.ACKF, aftOf] using this

theorem muC_startFlushRaw (D : Desc) (t : St) (next : CmdType) :
    muC D ({ startFlushRaw t .printCmd with cmdType := next } : St) ≤ FL D.cmdCap + listLeft D t.index next := by
  simp only [muC, startFlushRaw, St.emit, aftC, aftOf, stepsLeft, FL]
  omega

/-! ### starting a formatted response -/

theorem muC_startFormatRead (D : Desc) (t : St) : muC D (startFormatRead D t .cmd) + 1 ≤ D.FMR := by
  unfold startFormatRead
  simp only
  generalize (t.setPos .cmd 0).chkUb _ = s0
  generalize D.cmdD (s0.cmdOf .cmd) = c
  generalize printAll D s0 .cmd [c.name, [61]] = r
  obtain ⟨s1, ok⟩ := r
  cases ok
  · have := (muC_ack D s1).2
    simp only [Bool.not_false, if_true, endError]
    unfold Desc.FMR; omega
  · simp only [Bool.not_true, Bool.false_eq_true, if_false]
    split
    · simp only [muC]; unfold Desc.FMR; omega
    · split
      · have := (muC_ack D s1).2
        simp only [endError]
        unfold Desc.FMR; omega
      · simp only [setStateRL, muC]; unfold Desc.FMR; omega

theorem muC_printResponseTest (D : Desc) (t : St) (h : (printResponseTest D t .cmd).2 = true) :
    muC D (printResponseTest D t .cmd).1 ≤ D.TL + D.FLOK := by
  unfold printResponseTest at h ⊢
  simp only at h ⊢
  generalize t.chkUb _ = s0 at h ⊢
  generalize D.cmdD (s0.cmdOf .cmd) = c at h ⊢
  have fl : ∀ x : St, muC D (startFlush x .cmd .ok) ≤ D.FLOK := by
    intro x; have := muC_startFlush D x .ok; simp only [aftOf] at this; unfold Desc.FLOK; omega
  cases hd : c.desc with
  | none =>
    simp only [hd, Bool.not_true, Bool.false_eq_true, if_false] at h ⊢
    split
    · simp only [setStateTL, muC]; omega
    · have := fl s0; dsimp only; omega
  | some d =>
    simp only [hd] at h ⊢
    generalize printAll D s0 .cmd [nlStr s0, d] = r at h ⊢
    obtain ⟨s1, ok⟩ := r
    cases ok
    · simp at h
    · simp only [Bool.not_true, Bool.false_eq_true, if_false] at h ⊢
      split
      · simp only [setStateTL, muC]; omega
      · have := fl s1; dsimp only; omega

theorem muC_startFormatTest (D : Desc) (t : St) : muC D (startFormatTest D t .cmd) + 1 ≤ D.FMT := by
  unfold startFormatTest
  simp only
  generalize (t.setPos .cmd 0).chkUb _ = s0
  generalize D.cmdD (s0.cmdOf .cmd) = c
  generalize printAll D s0 .cmd [c.name, [61]] = r
  obtain ⟨s1, ok⟩ := r
  cases ok
  · have := (muC_ack D s1).2
    simp only [Bool.not_false, if_true, endError]
    unfold Desc.FMT; omega
  · simp only [Bool.not_true, Bool.false_eq_true, if_false]
    split
    · simp only [muC]; unfold Desc.FMT; omega
    · have pr := muC_printResponseTest D s1
      generalize printResponseTest D s1 .cmd = r2 at pr
      obtain ⟨s2, ok2⟩ := r2
      cases ok2
      · have := (muC_ack D s2).2
        simp only [Bool.false_eq_true, if_false, endError]
        unfold Desc.FMT; omega
      · have := pr rfl
        simp only [if_true]
        dsimp only at this
        unfold Desc.FMT; omega

/-! ### one step of the command machine decreases the measure -/

theorem updateCommand_dec (D : Desc) (s : St) (hs : s.state = .updateCommandState) (hi : s.index < D.commandsNum) :
    muC D (updateCommand D s).1 < muC D s := by
  have ⟨a, _, _, d, _⟩ := updateLane_fields D (s.chkUb (decide (s.index < D.commandsNum)))
  simp only [chkUb_ctl] at a d
  simp only [updateCommand, updateAdvance, a, d, prepareSearchCommand]
  (repeat' split) <;> simp [muC, hs, d, a, Desc.SEARCH0] <;> omega

theorem searchCommand_index (D : Desc) (s : St) (h : (searchCommand D s).1.state = .searchCommand) :
    (searchCommand D s).1.index = s.index + 1 := by
  revert h
  simp [searchCommand, notFoundOrError]; crunch

theorem searchCommand_dec (D : Desc) (s : St) (hs : s.state = .searchCommand) (hi : s.index < D.commandsNum) :
    muC D (searchCommand D s).1 < muC D s := by
  have g := graph_search D s
  have ix := searchCommand_index D s
  generalize (searchCommand D s).1 = s' at g ix
  simp only [List.mem_cons, List.mem_nil_iff, or_false] at g
  rcases g with g | g | g | g
  · rw [hs] at g
    have := ix g
    simp only [muC, g, hs, this]; omega
  · simp only [muC, g, hs]; omega
  · simp only [muC, g, hs]; omega
  · simp only [muC, g, hs]; omega

theorem muC_after (D : Desc) (t : St) (a : After) (h : t.state = a.toC) : muC D t = aftOf D a t.index t.cmdType := by
  cases a <;> simp [After.toC] at h <;> simp [muC, h, aftOf]

theorem ws_cases {n : Nat} (h : n ≤ 2) : n = 0 ∨ n = 1 ∨ n = 2 := by omega

theorem processIoWrite_dec (D : Desc) (s : St) (i : SvcIn) (hs : s.state = .flushWrite) (hw : i.wr = true)
    (o : OobF D s .cmd) : muC D (processIoWrite D s i).1 < muC D s := by
  have hph : s.ph .cmd = .flush := by simp [St.ph, hs, CState.ph]
  have omain := o.main hph
  have onl := o.nl hph
  have owsle := o.wsle hph
  simp only [St.wsrc, St.pos, St.wst] at omain onl owsle
  have hmu : muC D s = stepsLeft D.cmdCap s.writeState s.writeSrc s.position + aftC D s := by simp [muC, hs]
  rw [hmu]
  unfold processIoWrite writeByte
  simp only [hw, Bool.not_true, Bool.false_eq_true, if_false]
  have nlo := nlOff_le s
  cases hsrc : s.writeSrc with
  | nl off =>
    have hb := onl off hsrc
    simp only [hb, decide_true, chk_true]
    split
    · rcases ws_cases owsle with h | h | h
      · simp [h, muC, hs, stepsLeft, aftC]; omega
      · simp [h, muC, hs, stepsLeft, aftC]; omega
      · simp only [h, beq_self_eq_true, if_true, show (2 : Nat) ≠ 0 by decide, show (2 : Nat) ≠ 1 by decide,
          show ((2 : Nat) == 0) = false by decide, show ((2 : Nat) == 1) = false by decide, Bool.false_eq_true, if_false]
        rw [muC_after D _ s.writeStateAfter (by simp [St.emit])]
        simp [St.emit, stepsLeft, aftC]; omega
    · rename_i hne
      have hne' : ([13, 10, 0] : List Byte).getD (off + s.position) 0 ≠ 0 := by simpa using hne
      have h1 := nl_get_ne off s.position hne'
      simp [muC, hs, St.emit, stepsLeft, hsrc, aftC]; omega
  | main =>
    have hn := omain hsrc
    have hlt : s.position < D.cmdCap := hn.lt
    simp only [show s.position < D.capOf .cmd from hlt, decide_true, chk_true]
    split
    · rcases ws_cases owsle with h | h | h
      · simp [h, muC, hs, stepsLeft, aftC]; omega
      · simp [h, muC, hs, stepsLeft, aftC]; omega
      · simp only [h, show ((2 : Nat) == 0) = false by decide, show ((2 : Nat) == 1) = false by decide, Bool.false_eq_true, if_false,
          beq_self_eq_true, if_true]
        rw [muC_after D _ s.writeStateAfter (by simp [St.emit])]
        simp [St.emit, stepsLeft, aftC]; omega
    · simp [muC, hs, St.emit, stepsLeft, hsrc, aftC]; omega

theorem processIoWriteWait_dec (D : Desc) (s : St) (hs : s.state = .flushWait) (hu : s.ustate ≠ .flushWrite) :
    muC D (processIoWriteWait s).1 < muC D s := by
  simp [processIoWriteWait, hu, muC, hs, aftC]

theorem commandNotFound_dec (D : Desc) (s : St) (hs : s.state = .commandNotFound) :
    muC D (commandNotFound D s).1 < muC D s := by
  have := (muC_ack D s).2
  have hm : muC D s = 1 + D.ACKF := by simp [muC, hs]
  rw [hm]
  simp only [commandNotFound]; omega

theorem commandFound_dec (D : Desc) (s : St) (hs : s.state = .commandFound) :
    muC D (commandFound D s).1 < muC D s := by
  have hm : muC D s = D.FOUND := by simp [muC, hs]
  rw [hm]
  unfold commandFound
  simp only
  generalize s.chkUb s.cmd.isSome = s0
  generalize D.cmdD s0.cmd = c
  have ae := (muC_ack D s0).2
  have fr := muC_startFormatRead D s0
  split
  · (repeat' split) <;> first | (unfold Desc.FOUND; omega) | (simp only [muC]; unfold Desc.FOUND; omega)
  · split
    · unfold Desc.FOUND; omega
    · unfold Desc.FOUND; omega
  · simp only [muC]; unfold Desc.FOUND; omega
  · unfold Desc.FOUND; omega

/-- a handler's final answer: not "call me again" (NEXT, DATA_NEXT) and not HOLD -/
def Final (r : Int) : Prop := r ≠ 1 ∧ r ≠ 2 ∧ r ≠ 4

theorem listLeft_start (D : Desc) (h : D.commandsNum ≠ 0) : listLeft D 0 .none + 1 = D.LISTALL := by
  have e1 : (6 - CmdType.none.stage) * (D.FLR + 1) = D.PER := by simp [CmdType.stage, Desc.PER]
  unfold listLeft Desc.LISTALL
  rw [e1]
  generalize D.PER = P
  obtain ⟨k, hk⟩ : ∃ k, D.commandsNum = k + 1 := ⟨D.commandsNum - 1, by omega⟩
  rw [hk, Nat.succ_mul]
  have : k + 1 - 0 - 1 = k := by omega
  rw [this]

theorem muC_startPrintCmdList (D : Desc) (t : St) : muC D (startPrintCmdList D t) ≤ D.ACKF + D.LISTALL := by
  unfold startPrintCmdList
  split
  · have := (muC_ack D t).1; omega
  · rename_i h
    have := listLeft_start D (by simpa using h)
    simp only [muC]; omega

theorem tables_mu (D : Desc) (t : St) (ret : Int) (hf : Final ret) :
    muC D (doCalls D .cmd t (Gen.process_write_loop ret)) ≤ D.ACKF ∧
    muC D (doCalls D .cmd t (Gen.process_run_loop ret)) ≤ D.ACKF + D.LISTALL ∧
    muC D (doCalls D .cmd t (Gen.process_read_loop ret .cmd)) ≤ D.FLOK ∧
    muC D (doCalls D .cmd t (Gen.process_test_loop ret .cmd)) ≤ D.FLOK + D.ACKF + D.LISTALL := by
  obtain ⟨h1, h2, h4⟩ := hf
  have hfl : D.ACKF ≤ D.FLOK := by unfold Desc.FLOK; omega
  have a1 : muC D (doCalls D .cmd t [.ackOk]) ≤ D.ACKF := (muC_ack D t).1
  have a2 : muC D (doCalls D .cmd t [.ackError]) ≤ D.ACKF := (muC_ack D t).2
  have a3 : muC D (doCalls D .cmd t [.endOk]) ≤ D.ACKF := (muC_ack D t).1
  have a4 : muC D (doCalls D .cmd t [.endError]) ≤ D.ACKF := (muC_ack D t).2
  have a5 : muC D (doCalls D .cmd t [.holdExit true, .endOk]) ≤ D.ACKF := (muC_ack D _).1
  have a6 : muC D (doCalls D .cmd t [.holdExit false, .endError]) ≤ D.ACKF := (muC_ack D _).2
  have a7 : muC D (doCalls D .cmd t [.startFlush .ok]) ≤ D.FLOK := by
    have := muC_startFlush D t .ok; simp only [aftOf] at this
    show muC D (startFlush t .cmd .ok) ≤ D.FLOK
    unfold Desc.FLOK; omega
  have a8 : muC D (doCalls D .cmd t [.startPrintCmdList]) ≤ D.ACKF + D.LISTALL := muC_startPrintCmdList D t
  have hW : ∀ l : List Call, l ∈ [[Call.ackOk], [Call.ackError]] → muC D (doCalls D .cmd t l) ≤ D.ACKF := by
    intro l hl
    simp only [List.mem_cons, List.mem_nil_iff, or_false] at hl
    rcases hl with rfl | rfl
    · exact a1
    · exact a2
  have hX : ∀ l : List Call, l ∈ [[Call.ackOk], [Call.ackError], [Call.startPrintCmdList]] → muC D (doCalls D .cmd t l) ≤ D.ACKF + D.LISTALL := by
    intro l hl
    simp only [List.mem_cons, List.mem_nil_iff, or_false] at hl
    rcases hl with rfl | rfl | rfl
    · exact Nat.le_trans a1 (Nat.le_add_right _ _)
    · exact Nat.le_trans a2 (Nat.le_add_right _ _)
    · exact a8
  have hR : ∀ l : List Call, l ∈ [[Call.startFlush .ok], [Call.endOk], [Call.holdExit true, Call.endOk], [Call.holdExit false, Call.endError], [Call.endError]] →
      muC D (doCalls D .cmd t l) ≤ D.FLOK := by
    intro l hl
    simp only [List.mem_cons, List.mem_nil_iff, or_false] at hl
    rcases hl with rfl | rfl | rfl | rfl | rfl
    · exact a7
    · exact Nat.le_trans a3 hfl
    · exact Nat.le_trans a5 hfl
    · exact Nat.le_trans a6 hfl
    · exact Nat.le_trans a4 hfl
  have hT : ∀ l : List Call, l ∈ [[Call.startFlush .ok], [Call.endOk], [Call.holdExit true, Call.endOk], [Call.holdExit false, Call.endError], [Call.endError], [Call.startPrintCmdList]] →
      muC D (doCalls D .cmd t l) ≤ D.FLOK + D.ACKF + D.LISTALL := by
    intro l hl
    simp only [List.mem_cons, List.mem_nil_iff, or_false] at hl
    rcases hl with rfl | rfl | rfl | rfl | rfl | rfl
    · exact Nat.le_trans a7 (by omega)
    · exact Nat.le_trans a3 (by omega)
    · exact Nat.le_trans a5 (by omega)
    · exact Nat.le_trans a6 (by omega)
    · exact Nat.le_trans a4 (by omega)
    · exact Nat.le_trans a8 (by omega)
  refine ⟨?_, ?_, ?_, ?_⟩
  · unfold Gen.process_write_loop
    (repeat' split) <;> first | (exfalso; omega) | exact hW _ (by decide)
  · unfold Gen.process_run_loop
    (repeat' split) <;> first | (exfalso; omega) | exact hX _ (by decide)
  · unfold Gen.process_read_loop
    (repeat' split) <;> first | (exfalso; omega) | exact hR _ (by decide) | (rename_i hq; exact absurd hq (by decide))
  · unfold Gen.process_test_loop
    (repeat' split) <;> first | (exfalso; omega) | exact hT _ (by decide) | (rename_i hq; exact absurd hq (by decide))

theorem loops_dec (D : Desc) (s : St) (i : SvcIn) (hf : Final i.hc.ret) :
    (s.state = .writeLoop → muC D (processWriteLoop D s i).1 < muC D s) ∧
    (s.state = .runLoop → muC D (processRunLoop D s i).1 < muC D s) ∧
    (s.state = .readLoop → muC D (processReadLoop D s .cmd i).1 < muC D s) ∧
    (s.state = .testLoop → muC D (processTestLoop D s .cmd i).1 < muC D s) := by
  refine ⟨fun hs => ?_, fun hs => ?_, fun hs => ?_, fun hs => ?_⟩
  · have hm : muC D s = D.WL := by simp [muC, hs]
    rw [hm]; unfold processWriteLoop; simp only
    have := (tables_mu D (applyNested D .cmd false ((s.chkUb s.cmd.isSome).emit
      (.handler .cmd .write ((s.chkUb s.cmd.isSome).cmd.getD 0) ((region D (s.chkUb s.cmd.isSome) .cmd 0).take (s.chkUb s.cmd.isSome).length)
        (getB D (s.chkUb s.cmd.isSome) .cmd (s.chkUb s.cmd.isSome).length == 0 && decide ((s.chkUb s.cmd.isSome).length < D.cmdCap))
        (s.chkUb s.cmd.isSome).length (s.chkUb s.cmd.isSome).index i.hc.ret)) i.hc.acts) i.hc.ret hf).1
    unfold Desc.WL; omega
  · have hm : muC D s = D.RUN := by simp [muC, hs]
    rw [hm]; unfold processRunLoop; simp only
    have := (tables_mu D (applyNested D .cmd false ((s.chkUb s.cmd.isSome).emit
      (.handler .cmd .run ((s.chkUb s.cmd.isSome).cmd.getD 0) [] true 0 0 i.hc.ret)) i.hc.acts) i.hc.ret hf).2.1
    unfold Desc.RUN; omega
  · have hm : muC D s = D.RL := by simp [muC, hs]
    rw [hm]; unfold processReadLoop; simp only
    generalize applyNested D .cmd true _ _ = t
    have := (tables_mu D t i.hc.ret hf).2.2.1
    unfold Desc.RL; omega
  · have hm : muC D s = D.TL := by simp [muC, hs]
    rw [hm]; unfold processTestLoop; simp only
    generalize applyNested D .cmd true _ _ = t
    have := (tables_mu D t i.hc.ret hf).2.2.2
    unfold Desc.TL; omega

theorem afterFlush_dec (D : Desc) (s : St) :
    (s.state = .afterFlushReset → s.holdFlag = false → muC D ((resetState s).emit .ackDone) < muC D s) ∧
    (s.state = .afterFlushOk → muC D (ackOk D s) < muC D s) ∧
    (s.state = .afterFlushFormatRead → muC D (startFormatRead D s .cmd) < muC D s) ∧
    (s.state = .afterFlushFormatTest → muC D (startFormatTest D s .cmd) < muC D s) := by
  refine ⟨fun hs hh => ?_, fun hs => ?_, fun hs => ?_, fun hs => ?_⟩
  · simp [resetState, hh, muC, hs, St.emit]
  · have := (muC_ack D s).1
    have hm : muC D s = 1 + D.ACKF := by simp [muC, hs]
    omega
  · have := muC_startFormatRead D s
    have hm : muC D s = 1 + D.FMR := by simp [muC, hs]
    omega
  · have := muC_startFormatTest D s
    have hm : muC D s = 1 + D.FMT := by simp [muC, hs]
    omega

theorem parseWriteArgs_dec (D : Desc) (s : St) (i : SvcIn) (hs : s.state = .parseWriteArgs) :
    muC D (parseWriteArgs D s i).1 < muC D s := by
  have hm : muC D s = (D.vars - s.index) + 1 + D.ACKF + D.WL := by simp [muC, hs]
  rw [hm]
  unfold parseWriteArgs
  simp only
  generalize hs0 : (s.chkUb s.cmd.isSome).chkUb _ = s0
  have c0 : Calm s s0 := by rw [← hs0]; exact (Calm.chkUb s _).trans (Calm.chkUb _ _)
  have e1 : (s.chkUb s.cmd.isSome).cmd = s.cmd := (Calm.chkUb s _).c.2.2.2.2.1
  rw [e1, c0.c.1]
  have hvl := varNum_le D s.cmd
  generalize D.cmdD s.cmd = c at hvl
  generalize c.varAt s.index = v
  have pb := parseVarValue_buf D s0 v
  have pk := parseVarValue_keep D s0 v
  generalize parseVarValue D s0 v = r1 at pb pk
  obtain ⟨s1, stat, ok⟩ := r1
  simp only at pb pk
  cases ok
  · have := (muC_ack D s1).2
    simp only [Bool.not_false, if_true]; omega
  · simp only [Bool.not_true, Bool.false_eq_true, if_false]
    have cb := varWriteCb_calm D s1 v i
    generalize varWriteCb D s1 v i = r2 at cb
    obtain ⟨s2, fail⟩ := r2
    simp only at cb
    cases fail
    · simp only [Bool.false_eq_true, if_false]
      have hidx : s2.index = s.index := by rw [cb.1.c.1, pb.2.2.2, c0.c.1]
      have hst : s2.state = .parseWriteArgs := by rw [cb.1.c.2.2.2.2.2.2.2.1, pk.1, c0.c.2.2.2.2.2.2.2.1]; exact hs
      (repeat' split)
      · rename_i hm2
        simp only [Bool.and_eq_true, decide_eq_true_eq] at hm2
        simp only [muC, hst, hidx]
        rw [hidx] at hm2
        omega
      · exact Nat.lt_of_le_of_lt (muC_ack D _).2 (by omega)
      · exact Nat.lt_of_le_of_lt (muC_ack D _).2 (by omega)
      · exact Nat.lt_of_le_of_lt (muC_ack D _).1 (by omega)
      · simp only [muC]; omega
    · have := (muC_ack D s2).2
      simp only [if_true]; omega

/-- `next_format_var` of the command machine: what it can lead to, in terms of the measure -/
theorem nextFormatVar_mu (D : Desc) (t : St) :
    ((nextFormatVar D t .cmd).2 = true →
      muC D (nextFormatVar D t .cmd).1 ≤ D.ACKF ∨
      ((nextFormatVar D t .cmd).1.state = t.state ∧ (nextFormatVar D t .cmd).1.index = t.index + 1 ∧
        t.index + 1 < (D.cmdD t.cmd).varNum)) ∧
    ((nextFormatVar D t .cmd).2 = false → (nextFormatVar D t .cmd).1 = t.setIdx .cmd (t.index + 1)) := by
  unfold nextFormatVar
  simp only [St.cmdOf, St.idx]
  by_cases hlt : (t.setIdx .cmd (t.index + 1)).index < (D.cmdD t.cmd).varNum
  · simp only [hlt, if_true]
    by_cases hp : (t.setIdx .cmd (t.index + 1)).pos .cmd ≥ D.capOf .cmd
    · simp only [hp, if_true]
      exact ⟨fun _ => Or.inl (muC_ack D _).2, fun h => Bool.noConfusion h⟩
    · simp only [hp, if_false]
      refine ⟨fun _ => Or.inr ⟨?_, ?_, ?_⟩, fun h => Bool.noConfusion h⟩
      · simp [St.setPos, St.setIdx, (setB_ctl D _ .cmd _ _).1.1.2.2.2.2.2.2.2.1]
      · simp [St.setPos, St.setIdx, (setB_ctl D _ .cmd _ _).1.1.1]
      · simpa [St.setIdx] using hlt
  · simp only [hlt, if_false]
    exact ⟨fun h => Bool.noConfusion h, fun _ => trivial⟩

theorem formatReadArgs_dec (D : Desc) (s : St) (i : SvcIn) (hs : s.state = .formatReadArgs) :
    muC D (formatReadArgs D s .cmd i).1 < muC D s := by
  have hm : muC D s = (D.vars - s.index) + 1 + D.ACKF + D.RL + D.FLOK := by simp [muC, hs]
  rw [hm]
  unfold formatReadArgs
  simp only
  generalize hs0 : (s.chkUb (s.cmdOf .cmd).isSome).chkUb _ = s0
  have c0 : Calm s s0 := by rw [← hs0]; exact (Calm.chkUb s _).trans (Calm.chkUb _ _)
  generalize D.cmdD ((s.chkUb (s.cmdOf .cmd).isSome).cmdOf .cmd) = c
  generalize c.varAt (s0.idx .cmd) = v
  have cb := varReadCb_calm D s0 .cmd v i
  generalize varReadCb D s0 .cmd v i = r1 at cb
  obtain ⟨s1, fail⟩ := r1
  simp only at cb
  cases fail
  · simp only [Bool.false_eq_true, if_false]
    have fc := formatVar_cmd_keep D s1 v
    generalize formatVar D s1 .cmd v = r2 at fc
    obtain ⟨s2, ok⟩ := r2
    simp only at fc
    cases ok
    · exact Nat.lt_of_le_of_lt (muC_ack D _).2 (by omega)
    · simp only [Bool.not_true, Bool.false_eq_true, if_false]
      have hst2 : s2.state = .formatReadArgs := by rw [fc.1, cb.1.c.2.2.2.2.2.2.2.1, c0.c.2.2.2.2.2.2.2.1]; exact hs
      have hix2 : s2.index = s.index := by rw [fc.2.2.1, cb.1.c.1, c0.c.1]
      have hvl := varNum_le D s2.cmd
      have nx := nextFormatVar_mu D s2
      generalize nextFormatVar D s2 .cmd = r3 at nx
      obtain ⟨s3, more⟩ := r3
      simp only at nx
      cases more
      · simp only [Bool.false_eq_true, if_false]
        have e3 := nx.2 rfl
        split
        · rw [e3]; simp only [setStateRL, St.setIdx, muC]; omega
        · have := muC_startFlush D s3 .ok
          simp only [aftOf] at this
          dsimp only
          unfold Desc.FLOK; omega
      · simp only [if_true]
        rcases nx.1 rfl with h | ⟨h1, h2, h3⟩
        · omega
        · simp only [muC, h1, hst2, h2, hix2]
          rw [hix2] at h3
          omega
  · exact Nat.lt_of_le_of_lt (muC_ack D _).2 (by omega)

theorem formatTestArgs_dec (D : Desc) (s : St) (hs : s.state = .formatTestArgs) :
    muC D (formatTestArgs D s .cmd).1 < muC D s := by
  have hm : muC D s = (D.vars - s.index) + 1 + D.ACKF + D.TL + D.FLOK := by simp [muC, hs]
  rw [hm]
  unfold formatTestArgs
  simp only
  generalize hs0 : (s.chkUb (s.cmdOf .cmd).isSome).chkUb _ = s0
  have c0 : Calm s s0 := by rw [← hs0]; exact (Calm.chkUb s _).trans (Calm.chkUb _ _)
  generalize D.cmdD ((s.chkUb (s.cmdOf .cmd).isSome).cmdOf .cmd) = c
  generalize c.varAt (s0.idx .cmd) = v
  have fc := formatInfoType_cmd_keep D s0 v
  generalize formatInfoType D s0 .cmd v = r1 at fc
  obtain ⟨s1, ok⟩ := r1
  simp only at fc
  cases ok
  · exact Nat.lt_of_le_of_lt (muC_ack D _).2 (by omega)
  · simp only [Bool.not_true, Bool.false_eq_true, if_false]
    have hst1 : s1.state = .formatTestArgs := by rw [fc.1, c0.c.2.2.2.2.2.2.2.1]; exact hs
    have hix1 : s1.index = s.index := by rw [fc.2.2.1, c0.c.1]
    have hvl := varNum_le D s1.cmd
    have nx := nextFormatVar_mu D s1
    generalize nextFormatVar D s1 .cmd = r2 at nx
    obtain ⟨s2, more⟩ := r2
    simp only at nx
    cases more
    · simp only [Bool.false_eq_true, if_false]
      have pr := muC_printResponseTest D s2
      generalize printResponseTest D s2 .cmd = r3 at pr
      obtain ⟨s3, ok3⟩ := r3
      cases ok3
      · exact Nat.lt_of_le_of_lt (muC_ack D _).2 (by omega)
      · have := pr rfl
        simp only [if_true]
        dsimp only at this
        omega
    · simp only [if_true]
      rcases nx.1 rfl with h | ⟨h1, h2, h3⟩
      · omega
      · simp only [muC, h1, hst1, h2, hix1]
        rw [hix1] at h3
        omega

/-! ### the command list -/

theorem listLeft_next (D : Desc) (i : Nat) (h : i + 1 < D.commandsNum) :
    listLeft D (i + 1) .none = (D.commandsNum - i - 1) * D.PER + D.ACKF + 1 := by
  have e1 : (6 - CmdType.none.stage) * (D.FLR + 1) = D.PER := by simp [CmdType.stage, Desc.PER]
  unfold listLeft
  rw [e1]
  generalize D.PER = P
  obtain ⟨k, hk⟩ : ∃ k, D.commandsNum - i - 1 = k + 1 := ⟨D.commandsNum - i - 2, by omega⟩
  have : D.commandsNum - (i + 1) - 1 = k := by omega
  rw [this, hk, Nat.succ_mul]

theorem cmdListNext_mu (D : Desc) (t : St) (k : Nat) (hk : t.index = k) (ht : k < D.commandsNum) :
    muC D (if (cmdListNextCmd D t).2 = true then (cmdListNextCmd D t).1 else ackOk D (cmdListNextCmd D t).1)
      ≤ (D.commandsNum - k - 1) * D.PER + D.ACKF + 1 := by
  subst hk
  unfold cmdListNextCmd
  simp only
  split
  · simp only [Bool.false_eq_true, if_false]
    have := (muC_ack D { t with index := t.index + 1 }).1
    omega
  · rename_i h
    simp only [if_true, muC]
    rw [listLeft_next D t.index (by omega)]
    omega

theorem printCurrentCmdFullName_index (D : Desc) (t : St) (x : List Byte) :
    (printCurrentCmdFullName D t x).1.index = t.index := by
  simp [printCurrentCmdFullName]; crunch

theorem printCmdForm_mu (D : Desc) (t : St) (avail : Bool) (x : List Byte) (next : CmdType) (k : Nat) (hk : t.index = k) :
    muC D (printCmdForm D t avail x next) ≤ FL D.cmdCap + listLeft D k next ∨
    muC D (printCmdForm D t avail x next) ≤ D.ACKF ∨
    printCmdForm D t avail x next = { t with cmdType := next } := by
  subst hk
  unfold printCmdForm
  split
  · simp only
    have ix := printCurrentCmdFullName_index D { t with position := 0 } x
    generalize printCurrentCmdFullName D { t with position := 0 } x = r at ix
    obtain ⟨s1, ok⟩ := r
    cases ok
    · exact Or.inr (Or.inl (muC_ack D _).2)
    · simp only [Bool.not_true, Bool.false_eq_true, if_false]
      have := muC_startFlushRaw D s1 next
      simp only at ix
      rw [ix] at this
      exact Or.inl this
  · exact Or.inr (Or.inr rfl)

theorem printCmdList_dec (D : Desc) (s : St) (hs : s.state = .printCmd) (hi : s.index < D.commandsNum) :
    muC D (printCmdList D s) < muC D s := by
  have hm : muC D s = listLeft D s.index s.cmdType := by simp [muC, hs]
  rw [hm]
  unfold printCmdList
  simp only
  generalize hsc : s.chkUb _ = sc
  have c0 : Calm s sc := by rw [← hsc]; exact Calm.chkUb s _
  have hix : sc.index = s.index := c0.c.1
  have hty : sc.cmdType = s.cmdType := c0.c.2.2.2.2.2.1
  have hst : sc.state = .printCmd := by rw [c0.c.2.2.2.2.2.2.2.1]; exact hs
  have nx := cmdListNext_mu D ({ sc with cmd := some sc.index } : St) s.index hix hi
  have fm : ∀ avail x next, next.stage = s.cmdType.stage + 1 →
      muC D (printCmdForm D ({ sc with cmd := some sc.index } : St) avail x next) < listLeft D s.index s.cmdType := by
    intro avail x next hn
    have key : FL D.cmdCap + listLeft D s.index next < listLeft D s.index s.cmdType := by
      unfold listLeft Desc.FLR
      rw [hn]
      have hle : s.cmdType.stage ≤ 4 := by
        have : next.stage ≤ 5 := by cases next <;> simp [CmdType.stage]
        omega
      obtain ⟨k, hk⟩ : ∃ k, 6 - s.cmdType.stage = k + 1 := ⟨5 - s.cmdType.stage, by omega⟩
      have : 6 - (s.cmdType.stage + 1) = k := by omega
      rw [this, hk, Nat.succ_mul]
      omega
    have alt : D.ACKF < listLeft D s.index s.cmdType := by unfold listLeft; omega
    rcases printCmdForm_mu D ({ sc with cmd := some sc.index } : St) avail x next s.index hix with h | h | h
    · omega
    · omega
    · rw [h]
      simp only [muC, hst, hix]
      have : listLeft D s.index next ≤ FL D.cmdCap + listLeft D s.index next := Nat.le_add_left _ _
      omega
  split
  · rename_i hc
    have hc' : s.cmdType = .none := by rw [← hty]; exact hc
    split
    · simp only [hc', listLeft, CmdType.stage]
      have := nx
      omega
    · generalize (D.cmdD _).onlyTest = b
      cases b <;> simp [muC, hst, hix, hc', listLeft, CmdType.stage] <;> omega
  · rename_i hc
    have hc' : s.cmdType = .run := by rw [← hty]; exact hc
    exact fm _ _ _ (by simp [hc', CmdType.stage])
  · rename_i hc
    have hc' : s.cmdType = .read := by rw [← hty]; exact hc
    exact fm _ _ _ (by simp [hc', CmdType.stage])
  · rename_i hc
    have hc' : s.cmdType = .write := by rw [← hty]; exact hc
    exact fm _ _ _ (by simp [hc', CmdType.stage])
  · rename_i hc
    have hc' : s.cmdType = .test := by rw [← hty]; exact hc
    exact fm _ _ _ (by simp [hc', CmdType.stage])
  · rename_i hc
    have hc' : s.cmdType = .total := by rw [← hty]; exact hc
    simp only [hc', listLeft, CmdType.stage]
    have := nx
    omega

/-! ### one step of the command machine -/

theorem final_nohold (ret : Int) (hf : Final ret) :
    .enableHold ∉ Gen.process_write_loop ret ∧ .enableHold ∉ Gen.process_run_loop ret ∧
    .enableHold ∉ Gen.process_read_loop ret .cmd ∧ .enableHold ∉ Gen.process_test_loop ret .cmd := by
  obtain ⟨h1, h2, h4⟩ := hf
  refine ⟨?_, ?_, ?_, ?_⟩
  · unfold Gen.process_write_loop; (repeat' split) <;> first | (exfalso; omega) | simp
  · unfold Gen.process_run_loop; (repeat' split) <;> first | (exfalso; omega) | simp
  · unfold Gen.process_read_loop; (repeat' split) <;> first | (exfalso; omega) | simp
  · unfold Gen.process_test_loop; (repeat' split) <;> first | (exfalso; omega) | simp

/-- with final answers the command machine never enters HOLD -/
theorem commandService_nohold (D : Desc) (s : St) (i : SvcIn) (hf : Final i.hc.ret) (h : HoldCpl s) (hs : s.state ≠ .hold) :
    (commandService D s i).1.state ≠ .hold := by
  have hfl : s.holdFlag = false := by
    cases hh : s.holdFlag
    · rfl
    · exact absurd (h.1 hh) hs
  have nh := final_nohold i.hc.ret hf
  have lp : ∀ (t : St) (cs : List Call), .enableHold ∉ cs → t.state ≠ .hold → (doCalls D .cmd t cs).state ≠ .hold :=
    fun t cs a b => (doCalls_cmd_nohold D cs t a b).1
  have an : ∀ (f : Fsm) (e : Bool) (t : St) (acts : List Nested), (applyNested D f e t acts).state = t.state :=
    fun f e t acts => applyNested_state D f e acts t
  unfold commandService
  split <;> rename_i hst
  · have := graph_error D s i; intro e; simp [e, hst] at this
  · have := graph_idle s i; intro e; simp [e, hst] at this
  · have := graph_prefix D s i; intro e; simp [e, hst] at this
  · have := graph_parseCommand D s i; intro e; simp [e, hst] at this
  · have := graph_update D s; intro e; simp [e, hst] at this
  · have := graph_waitRead s i; intro e; simp [e, hst] at this
  · have := graph_search D s; intro e; simp [e, hst] at this
  · have := graph_found D s; intro e; simp [e] at this
  · simp [commandNotFound]
  · have := graph_args D s i; intro e; simp [e, hst] at this
  · have := graph_writeArgs D s i; intro e; simp [e, hst] at this
  · have := graph_formatRead D s i; intro e; simp [e, hst] at this
  · have := graph_waitTest D s i; intro e; simp [e, hst] at this
  · have := graph_formatTest D s; intro e; simp [e, hst] at this
  · unfold processWriteLoop; simp only
    exact lp _ _ nh.1 (by rw [an]; simp [St.emit, hst])
  · unfold processReadLoop; simp only
    exact lp _ _ nh.2.2.1 (by rw [an]; simp [St.emit, hst])
  · unfold processTestLoop; simp only
    exact lp _ _ nh.2.2.2 (by rw [an]; simp [St.emit, hst])
  · unfold processRunLoop; simp only
    exact lp _ _ nh.2.1 (by rw [an]; simp [St.emit, hst])
  · exact absurd hst hs
  · rw [graph_wait]; split <;> simp [hst]
  · have := graph_write D s i; intro e; simp [e, hst] at this; cases hx : s.writeStateAfter <;> simp [hx, After.toC] at this
  · simp [resetState, hfl, St.emit]
  · simp
  · have := startFormatRead_cmd_state D s; intro e; dsimp only at e; simp [e] at this
  · have := startFormatTest_cmd_state D s; intro e; dsimp only at e; simp [e] at this
  · have := graph_printCmd D s; intro e; dsimp only at e; simp [e, hst] at this

/-- **One step of the command machine** without deliverable input, with an accepting output and a
final handler answer: a state waiting for input stays as it is and reports OK; a unit ready to be
sent while the other machine is sending waits; every other step decreases the measure. -/
theorem commandService_dec (D : Desc) (s : St) (i : SvcIn) (hrd : i.rd = none) (hwr : i.wr = true) (hf : Final i.hc.ret)
    (u : UbInv D s) (o : OobF D s .cmd) (h : HoldCpl s) (hs : s.state ≠ .hold) :
    (Reading s.state → commandService D s i = (s.emit (.rd none), Gen.CAT_STATUS_OK)) ∧
    (¬ Reading s.state →
      (s.state = .flushWait ∧ s.ustate = .flushWrite ∧ (commandService D s i).1 = s) ∨
      muC D (commandService D s i).1 < muC D s) := by
  refine ⟨fun hr => read_refused D s i hr hrd, fun hr => ?_⟩
  have hfl : s.holdFlag = false := by
    cases hh : s.holdFlag
    · rfl
    · exact absurd (h.1 hh) hs
  have ld := loops_dec D s i hf
  have af := afterFlush_dec D s
  unfold Reading at hr
  unfold commandService
  split <;> rename_i hst
  · exact absurd (by simp [hst]) hr
  · exact absurd (by simp [hst]) hr
  · exact absurd (by simp [hst]) hr
  · exact absurd (by simp [hst]) hr
  · exact Or.inr (updateCommand_dec D s hst (u.idx (Or.inl hst)))
  · exact absurd (by simp [hst]) hr
  · exact Or.inr (searchCommand_dec D s hst (u.idx (Or.inr (Or.inl hst))))
  · exact Or.inr (commandFound_dec D s hst)
  · exact Or.inr (commandNotFound_dec D s hst)
  · exact absurd (by simp [hst]) hr
  · exact Or.inr (parseWriteArgs_dec D s i hst)
  · exact Or.inr (formatReadArgs_dec D s i hst)
  · exact absurd (by simp [hst]) hr
  · exact Or.inr (formatTestArgs_dec D s hst)
  · exact Or.inr (ld.1 hst)
  · exact Or.inr (ld.2.2.1 hst)
  · exact Or.inr (ld.2.2.2 hst)
  · exact Or.inr (ld.2.1 hst)
  · exact absurd hst hs
  · by_cases hu : s.ustate = .flushWrite
    · exact Or.inl ⟨hst, hu, by simp [processIoWriteWait, hu]⟩
    · exact Or.inr (processIoWriteWait_dec D s hst hu)
  · exact Or.inr (processIoWrite_dec D s i hst hwr o)
  · exact Or.inr (af.1 hst hfl)
  · exact Or.inr (af.2.1 hst)
  · exact Or.inr (af.2.2.1 hst)
  · exact Or.inr (af.2.2.2 hst)
  · exact Or.inr (printCmdList_dec D s hst (u.idx (Or.inr (Or.inr (Or.inl hst)))))

/-! ### without nested API calls the command machine leaves the event queue alone -/

/-- the number of queued events is `n` -/
def RC (n : Nat) (s : St) : Prop := s.rcount = n

theorem RC.congr {n : Nat} {s s' : St} (h : RC n s) (hr : SameR s s') : RC n s' := by
  unfold RC at *; rw [hr.2.2.2]; exact h

theorem applyNested_rc (D : Desc) (f : Fsm) (e : Bool) (acts : List Nested) (n : Nat) (ha : noApi acts = true) :
    ∀ s : St, RC n s → RC n (applyNested D f e s acts) := by
  induction acts with
  | nil => intro s h; exact h
  | cons a r ih =>
    intro s h
    cases a with
    | trigger c t => simp [noApi] at ha
    | holdExit st => simp [noApi] at ha
    | poke slot off bs =>
      simp only [applyNested]
      split <;> exact ih (by simpa [noApi] using ha) _ (h.congr (by simp))
    | edit bs =>
      simp only [applyNested]
      split <;> exact ih (by simpa [noApi] using ha) _ (h.congr (by simp))
    | report n =>
      simp only [applyNested]
      split <;> exact ih (by simpa [noApi] using ha) _ (h.congr (by simp))

theorem varWriteCb_rc (D : Desc) (s : St) (v : VarD) (i : SvcIn) (n : Nat) (hv : noApi i.vc.acts = true) (h : RC n s) :
    RC n (varWriteCb D s v i).1 := by
  unfold varWriteCb
  split
  · exact applyNested_rc D .cmd false _ n hv _ (h.congr (by simp))
  · exact h

theorem varReadCb_rc (D : Desc) (s : St) (f : Fsm) (v : VarD) (i : SvcIn) (n : Nat)
    (hv : noApi (match f with | .cmd => i.vc | .uns => i.vu).acts = true) (h : RC n s) : RC n (varReadCb D s f v i).1 := by
  unfold varReadCb
  simp only
  split
  · exact applyNested_rc D f false _ n hv _ (h.congr (by simp))
  · exact h

theorem commandService_rc (D : Desc) (s : St) (i : SvcIn) (n : Nat) (ha : noApi i.hc.acts = true) (hv : noApi i.vc.acts = true) (hi : RC n s) :
    RC n (commandService D s i).1 := by
  unfold commandService
  split
  · exact hi.congr (by simp [errorState]; rr)
  · exact hi.congr (by simp [processIdleState]; rr)
  · exact hi.congr (by simp [parsePrefix, prepareParseCommand]; rr)
  · exact hi.congr (by simp [parseCommand, prepareSearchCommand]; rr)
  · exact hi.congr (by simp [updateCommand, updateAdvance, updateLane, prepareSearchCommand]; rr)
  · exact hi.congr (by simp [waitReadAcknowledge, prepareSearchCommand]; rr)
  · exact hi.congr (by simp [searchCommand, notFoundOrError]; rr)
  · exact hi.congr (by simp [commandFound]; rr)
  · exact hi.congr (by simp [commandNotFound])
  · exact hi.congr (by simp [parseCommandArgs]; rr)
  · -- parse_write_args: the variable callback may trigger events
    simp only [parseWriteArgs]
    generalize hs0 : (s.chkUb s.cmd.isSome).chkUb _ = s0
    have h0 : RC n s0 := hi.congr (by subst hs0; simp)
    generalize hvv : (D.cmdD (s.chkUb s.cmd.isSome).cmd).varAt _ = v
    have h1 : RC n (parseVarValue D s0 v).1 := h0.congr (by simp)
    split
    · exact h1.congr (by simp)
    · have h2 := varWriteCb_rc D (parseVarValue D s0 v).1 v i n hv h1
      split
      · exact h2.congr (by simp)
      · (repeat' split) <;> exact h2.congr (by simp)
  · simp only [formatReadArgs]
    generalize hs0 : (s.chkUb (s.cmdOf .cmd).isSome).chkUb _ = s0
    have h0 : RC n s0 := hi.congr (by subst hs0; simp)
    generalize hvv : (D.cmdD ((s.chkUb (s.cmdOf Fsm.cmd).isSome).cmdOf Fsm.cmd)).varAt _ = v
    have h1 := varReadCb_rc D s0 .cmd v i n (by simpa using hv) h0
    split
    · exact h1.congr (by simp)
    · have h2 : RC n (formatVar D (varReadCb D s0 .cmd v i).1 .cmd v).1 := h1.congr (by simp)
      split
      · exact h2.congr (by simp)
      · have h3 : RC n (nextFormatVar D (formatVar D (varReadCb D s0 .cmd v i).1 .cmd v).1 .cmd).1 := h2.congr (by simp)
        (repeat' split) <;> first | exact h3 | exact h3.congr (by simp)
  · exact hi.congr (by simp [waitTestAcknowledge]; rr)
  · exact hi.congr (by simp [formatTestArgs]; rr)
  · simp only [processWriteLoop]
    exact (applyNested_rc D _ _ _ n ha _ (hi.congr (by simp))).congr (doCalls_R D _ _ _)
  · simp only [processReadLoop]
    exact (applyNested_rc D _ _ _ n ha _ (hi.congr (by simp))).congr (doCalls_R D _ _ _)
  · simp only [processTestLoop]
    exact (applyNested_rc D _ _ _ n ha _ (hi.congr (by simp))).congr (doCalls_R D _ _ _)
  · simp only [processRunLoop]
    exact (applyNested_rc D _ _ _ n ha _ (hi.congr (by simp))).congr (doCalls_R D _ _ _)
  · exact hi.congr (by simp [processHoldState]; rr)
  · exact hi.congr (by simp [processIoWriteWait]; rr)
  · exact hi.congr (by simp [processIoWrite]; rr)
  · exact hi.congr (by simp [resetState]; rr)
  · exact hi.congr (by simp)
  · exact hi.congr (by simp)
  · exact hi.congr (by simp)
  · exact hi.congr (by simp [printCmdList, printCmdForm]; rr)



/-! ### the measure of the unsolicited machine -/

theorem locU_startFlush (D : Desc) (t : St) (a : After) :
    locU D (startFlush t .uns a) ≤ FL D.unsCap + aftU D a := by
  have := nlOff_le t
  simp only [locU, startFlush, St.emit, stepsLeft, FL]
  omega

theorem locU_reset (D : Desc) (t : St) : locU D (unsolicitedResetState t) = 0 := by
  simp [locU, unsolicitedResetState]

theorem locU_startFormatRead (D : Desc) (t : St) : locU D (startFormatRead D t .uns) + 1 ≤ D.FMU := by
  unfold startFormatRead
  simp only
  generalize (t.setPos .uns 0).chkUb _ = s0
  generalize D.cmdD (s0.cmdOf .uns) = c
  generalize printAll D s0 .uns [c.name, [61]] = r
  obtain ⟨s1, ok⟩ := r
  cases ok
  · simp only [Bool.not_false, if_true, endError, locU_reset]
    unfold Desc.FMU; omega
  · simp only [Bool.not_true, Bool.false_eq_true, if_false]
    split
    · simp only [locU]; unfold Desc.FMU; omega
    · split
      · simp only [endError, locU_reset]; unfold Desc.FMU; omega
      · simp only [setStateRL, locU]; unfold Desc.FMU; omega

theorem locU_printResponseTest (D : Desc) (t : St) (h : (printResponseTest D t .uns).2 = true) :
    locU D (printResponseTest D t .uns).1 ≤ D.RLU + D.FLOKU := by
  unfold printResponseTest at h ⊢
  simp only at h ⊢
  generalize t.chkUb _ = s0 at h ⊢
  generalize D.cmdD (s0.cmdOf .uns) = c at h ⊢
  have fl : ∀ x : St, locU D (startFlush x .uns .ok) ≤ D.FLOKU := by
    intro x; have := locU_startFlush D x .ok; simp only [aftU] at this; unfold Desc.FLOKU; omega
  cases hd : c.desc with
  | none =>
    simp only [hd, Bool.not_true, Bool.false_eq_true, if_false] at h ⊢
    split
    · simp only [setStateTL, locU]; omega
    · have := fl s0; dsimp only; omega
  | some d =>
    simp only [hd] at h ⊢
    generalize printAll D s0 .uns [nlStr s0, d] = r at h ⊢
    obtain ⟨s1, ok⟩ := r
    cases ok
    · simp at h
    · simp only [Bool.not_true, Bool.false_eq_true, if_false] at h ⊢
      split
      · simp only [setStateTL, locU]; omega
      · have := fl s1; dsimp only; omega

theorem locU_startFormatTest (D : Desc) (t : St) : locU D (startFormatTest D t .uns) + 1 ≤ D.FMU := by
  unfold startFormatTest
  simp only
  generalize (t.setPos .uns 0).chkUb _ = s0
  generalize D.cmdD (s0.cmdOf .uns) = c
  generalize printAll D s0 .uns [c.name, [61]] = r
  obtain ⟨s1, ok⟩ := r
  cases ok
  · simp only [Bool.not_false, if_true, endError, locU_reset]
    unfold Desc.FMU; omega
  · simp only [Bool.not_true, Bool.false_eq_true, if_false]
    split
    · simp only [locU]; unfold Desc.FMU; omega
    · have pr := locU_printResponseTest D s1
      generalize printResponseTest D s1 .uns = r2 at pr
      obtain ⟨s2, ok2⟩ := r2
      cases ok2
      · simp only [Bool.false_eq_true, if_false, endError, locU_reset]
        unfold Desc.FMU; omega
      · have := pr rfl
        simp only [if_true]
        dsimp only at this
        unfold Desc.FMU; omega

/-! ### one step of the unsolicited machine -/

theorem locU_after (D : Desc) (t : St) (a : After) (h : t.ustate = a.toU) : locU D t = aftU D a := by
  cases a <;> simp [After.toU] at h <;> simp [locU, h, aftU]

theorem unsolicitedProcessIoWrite_dec (D : Desc) (s : St) (i : SvcIn) (hs : s.ustate = .flushWrite) (hw : i.wr = true)
    (o : OobF D s .uns) : locU D (unsolicitedProcessIoWrite D s i).1 < locU D s := by
  have hph : s.ph .uns = .flush := by simp [St.ph, hs, UState.ph]
  have omain := o.main hph
  have onl := o.nl hph
  have owsle := o.wsle hph
  simp only [St.wsrc, St.pos, St.wst] at omain onl owsle
  have hmu : locU D s = stepsLeft D.unsCap s.uwriteState s.uwriteSrc s.uposition + aftU D s.uwriteStateAfter := by simp [locU, hs]
  rw [hmu]
  unfold unsolicitedProcessIoWrite writeByte
  simp only [hw, Bool.not_true, Bool.false_eq_true, if_false]
  have nlo := nlOff_le s
  cases hsrc : s.uwriteSrc with
  | nl off =>
    have hb := onl off hsrc
    simp only [hb, decide_true, chk_true]
    split
    · rcases ws_cases owsle with h | h | h
      · simp [h, locU, hs, stepsLeft]; omega
      · simp [h, locU, hs, stepsLeft]; omega
      · simp only [h, beq_self_eq_true, if_true, show (2 : Nat) ≠ 0 by decide, show (2 : Nat) ≠ 1 by decide,
          show ((2 : Nat) == 0) = false by decide, show ((2 : Nat) == 1) = false by decide, Bool.false_eq_true, if_false]
        rw [locU_after D _ s.uwriteStateAfter (by simp [St.emit])]
        simp [St.emit, stepsLeft]; omega
    · rename_i hne
      have hne' : ([13, 10, 0] : List Byte).getD (off + s.uposition) 0 ≠ 0 := by simpa using hne
      have h1 := nl_get_ne off s.uposition hne'
      simp [locU, hs, St.emit, stepsLeft, hsrc]; omega
  | main =>
    have hn := omain hsrc
    have hlt : s.uposition < D.unsCap := hn.lt
    simp only [show s.uposition < D.capOf .uns from hlt, decide_true, chk_true]
    split
    · rcases ws_cases owsle with h | h | h
      · simp [h, locU, hs, stepsLeft]; omega
      · simp [h, locU, hs, stepsLeft]; omega
      · simp only [h, show ((2 : Nat) == 0) = false by decide, show ((2 : Nat) == 1) = false by decide, Bool.false_eq_true, if_false,
          beq_self_eq_true, if_true]
        rw [locU_after D _ s.uwriteStateAfter (by simp [St.emit])]
        simp [St.emit, stepsLeft]; omega
    · simp [locU, hs, St.emit, stepsLeft, hsrc]; omega


theorem unsolicitedProcessIoWriteWait_dec (D : Desc) (s : St) (hs : s.ustate = .flushWait) (hc : s.state ≠ .flushWrite) :
    locU D (unsolicitedProcessIoWriteWait s).1 < locU D s := by
  simp [unsolicitedProcessIoWriteWait, hc, locU, hs]

theorem tablesU_mu (D : Desc) (t : St) (ret : Int) (hf : Final ret) :
    locU D (doCalls D .uns t (Gen.process_read_loop ret .uns)) ≤ D.FLOKU ∧
    locU D (doCalls D .uns t (Gen.process_test_loop ret .uns)) ≤ D.FLOKU := by
  obtain ⟨h1, h2, h4⟩ := hf
  have a3 : locU D (doCalls D .uns t [.endOk]) ≤ D.FLOKU := by
    show locU D (unsolicitedResetState t) ≤ _; rw [locU_reset]; exact Nat.zero_le _
  have a4 : locU D (doCalls D .uns t [.endError]) ≤ D.FLOKU := by
    show locU D (unsolicitedResetState t) ≤ _; rw [locU_reset]; exact Nat.zero_le _
  have a5 : locU D (doCalls D .uns t [.holdExit true, .endOk]) ≤ D.FLOKU := by
    show locU D (unsolicitedResetState _) ≤ _; rw [locU_reset]; exact Nat.zero_le _
  have a6 : locU D (doCalls D .uns t [.holdExit false, .endError]) ≤ D.FLOKU := by
    show locU D (unsolicitedResetState _) ≤ _; rw [locU_reset]; exact Nat.zero_le _
  have a7 : locU D (doCalls D .uns t [.startFlush .ok]) ≤ D.FLOKU := by
    have := locU_startFlush D t .ok; simp only [aftU] at this
    show locU D (startFlush t .uns .ok) ≤ D.FLOKU
    unfold Desc.FLOKU; omega
  have hR : ∀ l : List Call, l ∈ [[Call.startFlush .ok], [Call.endOk], [Call.holdExit true, Call.endOk], [Call.holdExit false, Call.endError], [Call.endError]] →
      locU D (doCalls D .uns t l) ≤ D.FLOKU := by
    intro l hl
    simp only [List.mem_cons, List.mem_nil_iff, or_false] at hl
    rcases hl with rfl | rfl | rfl | rfl | rfl
    · exact a7
    · exact a3
    · exact a5
    · exact a6
    · exact a4
  constructor
  · unfold Gen.process_read_loop
    (repeat' split) <;> first | (exfalso; omega) | exact hR _ (by decide) | (rename_i hq; exact absurd hq (by decide))
  · unfold Gen.process_test_loop
    (repeat' split) <;> first | (exfalso; omega) | exact hR _ (by decide) | (rename_i hq; exact absurd hq (by decide))

theorem loopsU_dec (D : Desc) (s : St) (i : SvcIn) (hf : Final i.hu.ret) :
    (s.ustate = .readLoop → locU D (processReadLoop D s .uns i).1 < locU D s) ∧
    (s.ustate = .testLoop → locU D (processTestLoop D s .uns i).1 < locU D s) := by
  refine ⟨fun hs => ?_, fun hs => ?_⟩
  · have hm : locU D s = D.RLU := by simp [locU, hs]
    rw [hm]; unfold processReadLoop; simp only
    generalize applyNested D .uns true _ _ = t
    have := (tablesU_mu D t i.hu.ret hf).1
    unfold Desc.RLU; omega
  · have hm : locU D s = D.RLU := by simp [locU, hs]
    rw [hm]; unfold processTestLoop; simp only
    generalize applyNested D .uns true _ _ = t
    have := (tablesU_mu D t i.hu.ret hf).2
    unfold Desc.RLU; omega

theorem afterFlushU_dec (D : Desc) (s : St) :
    (s.ustate = .afterFlushReset → locU D (unsolicitedResetState s) < locU D s) ∧
    (s.ustate = .afterFlushOk → locU D (endOk D s .uns) < locU D s) ∧
    (s.ustate = .afterFlushFormatRead → locU D (startFormatRead D s .uns) < locU D s) ∧
    (s.ustate = .afterFlushFormatTest → locU D (startFormatTest D s .uns) < locU D s) := by
  refine ⟨fun hs => ?_, fun hs => ?_, fun hs => ?_, fun hs => ?_⟩
  · rw [locU_reset]; simp [locU, hs]
  · simp only [endOk]; rw [locU_reset]; simp [locU, hs]
  · have := locU_startFormatRead D s
    have hm : locU D s = 1 + D.FMU := by simp [locU, hs]
    omega
  · have := locU_startFormatTest D s
    have hm : locU D s = 1 + D.FMU := by simp [locU, hs]
    omega

theorem nextFormatVarU_mu (D : Desc) (t : St) :
    ((nextFormatVar D t .uns).2 = true →
      locU D (nextFormatVar D t .uns).1 = 0 ∨
      ((nextFormatVar D t .uns).1.ustate = t.ustate ∧ (nextFormatVar D t .uns).1.uindex = t.uindex + 1 ∧
        t.uindex + 1 < (D.cmdD t.ucmd).varNum)) ∧
    ((nextFormatVar D t .uns).2 = false → (nextFormatVar D t .uns).1 = t.setIdx .uns (t.uindex + 1)) := by
  unfold nextFormatVar
  simp only [St.cmdOf, St.idx]
  by_cases hlt : (t.setIdx .uns (t.uindex + 1)).uindex < (D.cmdD t.ucmd).varNum
  · simp only [hlt, if_true]
    by_cases hp : (t.setIdx .uns (t.uindex + 1)).pos .uns ≥ D.capOf .uns
    · simp only [hp, if_true]
      exact ⟨fun _ => Or.inl (by simp only [endError]; exact locU_reset D _), fun h => Bool.noConfusion h⟩
    · simp only [hp, if_false]
      refine ⟨fun _ => Or.inr ⟨?_, ?_, ?_⟩, fun h => Bool.noConfusion h⟩
      · simp [St.setPos, St.setIdx]
      · simp [St.setPos, St.setIdx]
      · simpa [St.setIdx] using hlt
  · simp only [hlt, if_false]
    exact ⟨fun h => Bool.noConfusion h, fun _ => trivial⟩

theorem formatReadArgsU_dec (D : Desc) (s : St) (i : SvcIn) (hs : s.ustate = .formatReadArgs) :
    locU D (formatReadArgs D s .uns i).1 < locU D s := by
  have hm : locU D s = (D.vars - s.uindex) + 1 + D.RLU + D.FLOKU := by simp [locU, hs]
  rw [hm]
  unfold formatReadArgs
  simp only
  generalize hs0 : (s.chkUb (s.cmdOf .uns).isSome).chkUb _ = s0
  have c0 : Calm s s0 := by rw [← hs0]; exact (Calm.chkUb s _).trans (Calm.chkUb _ _)
  generalize D.cmdD ((s.chkUb (s.cmdOf .uns).isSome).cmdOf .uns) = c
  generalize c.varAt (s0.idx .uns) = v
  have cb := varReadCb_uns_keep D s0 v i
  generalize varReadCb D s0 .uns v i = r1 at cb
  obtain ⟨s1, fail⟩ := r1
  simp only at cb
  cases fail
  · simp only [Bool.false_eq_true, if_false]
    have fc := formatVar_uns_keep D s1 v
    generalize formatVar D s1 .uns v = r2 at fc
    obtain ⟨s2, ok⟩ := r2
    simp only at fc
    cases ok
    · simp only [Bool.not_false, if_true, endError, locU_reset]; omega
    · simp only [Bool.not_true, Bool.false_eq_true, if_false]
      have hst2 : s2.ustate = .formatReadArgs := by rw [fc.1, cb.1, c0.u.1]; exact hs
      have hix2 : s2.uindex = s.uindex := by rw [fc.2.2.1, cb.2.2.1, c0.u.2.1]
      have hvl := varNum_le D s2.ucmd
      have nx := nextFormatVarU_mu D s2
      generalize nextFormatVar D s2 .uns = r3 at nx
      obtain ⟨s3, more⟩ := r3
      simp only at nx
      cases more
      · simp only [Bool.false_eq_true, if_false]
        have e3 := nx.2 rfl
        split
        · rw [e3]; simp only [setStateRL, St.setIdx, locU]; omega
        · have := locU_startFlush D s3 .ok
          simp only [aftU] at this
          dsimp only
          unfold Desc.FLOKU; omega
      · simp only [if_true]
        rcases nx.1 rfl with h | ⟨h1, h2, h3⟩
        · omega
        · simp only [locU, h1, hst2, h2, hix2]
          rw [hix2] at h3
          omega
  · simp only [if_true, endError, locU_reset]; omega

theorem formatTestArgsU_dec (D : Desc) (s : St) (hs : s.ustate = .formatTestArgs) :
    locU D (formatTestArgs D s .uns).1 < locU D s := by
  have hm : locU D s = (D.vars - s.uindex) + 1 + D.RLU + D.FLOKU := by simp [locU, hs]
  rw [hm]
  unfold formatTestArgs
  simp only
  generalize hs0 : (s.chkUb (s.cmdOf .uns).isSome).chkUb _ = s0
  have c0 : Calm s s0 := by rw [← hs0]; exact (Calm.chkUb s _).trans (Calm.chkUb _ _)
  generalize D.cmdD ((s.chkUb (s.cmdOf .uns).isSome).cmdOf .uns) = c
  generalize c.varAt (s0.idx .uns) = v
  have fc := formatInfoType_uns_keep D s0 v
  generalize formatInfoType D s0 .uns v = r1 at fc
  obtain ⟨s1, ok⟩ := r1
  simp only at fc
  cases ok
  · simp only [Bool.not_false, if_true, endError, locU_reset]; omega
  · simp only [Bool.not_true, Bool.false_eq_true, if_false]
    have hst1 : s1.ustate = .formatTestArgs := by rw [fc.1, c0.u.1]; exact hs
    have hix1 : s1.uindex = s.uindex := by rw [fc.2.2.1, c0.u.2.1]
    have hvl := varNum_le D s1.ucmd
    have nx := nextFormatVarU_mu D s1
    generalize nextFormatVar D s1 .uns = r2 at nx
    obtain ⟨s2, more⟩ := r2
    simp only at nx
    cases more
    · simp only [Bool.false_eq_true, if_false]
      have pr := locU_printResponseTest D s2
      generalize printResponseTest D s2 .uns = r3 at pr
      obtain ⟨s3, ok3⟩ := r3
      cases ok3
      · simp only [Bool.false_eq_true, if_false, endError, locU_reset]; omega
      · have := pr rfl
        simp only [if_true]
        dsimp only at this
        omega
    · simp only [if_true]
      rcases nx.1 rfl with h | ⟨h1, h2, h3⟩
      · omega
      · simp only [locU, h1, hst1, h2, hix1]
        rw [hix1] at h3
        omega

theorem unsolicitedEventsService_rc (D : Desc) (s : St) (i : SvcIn) (n : Nat) (ha : noApi i.hu.acts = true) (hv : noApi i.vu.acts = true)
    (hne : s.ustate ≠ .idle) (hi : RC n s) : RC n (unsolicitedEventsService D s i).1 := by
  unfold unsolicitedEventsService
  split
  · rename_i hs; exact absurd hs hne
  · simp only [formatReadArgs]
    generalize hs0 : (s.chkUb (s.cmdOf .uns).isSome).chkUb _ = s0
    have h0 : RC n s0 := hi.congr (by subst hs0; simp)
    generalize hvv : (D.cmdD ((s.chkUb (s.cmdOf Fsm.uns).isSome).cmdOf Fsm.uns)).varAt _ = v
    have h1 := varReadCb_rc D s0 .uns v i n (by simpa using hv) h0
    split
    · exact h1.congr (by simp)
    · have h2 : RC n (formatVar D (varReadCb D s0 .uns v i).1 .uns v).1 := h1.congr (by simp)
      split
      · exact h2.congr (by simp)
      · have h3 : RC n (nextFormatVar D (formatVar D (varReadCb D s0 .uns v i).1 .uns v).1 .uns).1 := h2.congr (by simp)
        (repeat' split) <;> first | exact h3 | exact h3.congr (by simp)
  · exact hi.congr (by simp [formatTestArgs]; rr)
  · simp only [processReadLoop]
    exact (applyNested_rc D _ _ _ n ha _ (hi.congr (by simp))).congr (doCalls_R D _ _ _)
  · simp only [processTestLoop]
    exact (applyNested_rc D _ _ _ n ha _ (hi.congr (by simp))).congr (doCalls_R D _ _ _)
  · exact hi.congr (by simp [unsolicitedProcessIoWriteWait]; rr)
  · exact hi.congr (by simp [unsolicitedProcessIoWrite]; rr)
  · exact hi.congr (by simp [unsolicitedResetState])
  · exact hi.congr (by simp)
  · exact hi.congr (by simp)
  · exact hi.congr (by simp)


/-- the fields the unsolicited machine's measure reads -/
theorem locU_congr (D : Desc) {s s' : St} (hu : SameU' s s') (hp : s'.uposition = s.uposition) : locU D s' = locU D s := by
  simp only [SameU'] at hu
  obtain ⟨a1, a2, a3, a4, a5, a6, a7⟩ := hu
  simp only [locU, a1, a2, a5, a6, a7, hp]

theorem muC_congr (D : Desc) {s s' : St} (hc : SameC' s s') (hp : s'.position = s.position) : muC D s' = muC D s := by
  simp only [SameC'] at hc
  obtain ⟨a1, a2, a3, a4, a5, a6, a7, a8, a9, a10, a11, a12, a13⟩ := hc
  simp only [muC, aftC, a1, a6, a8, a10, a11, a12, hp]

/-- **One step of the unsolicited machine** with an accepting output and final answers: with nothing
queued and nothing in progress it does nothing; a unit ready to be sent while the command machine is
sending waits; every other step decreases the measure. -/
theorem unsolicitedEventsService_dec (D : Desc) (s : St) (i : SvcIn) (hwr : i.wr = true) (hf : Final i.hu.ret)
    (ha : noApi i.hu.acts = true) (hv : noApi i.vu.acts = true) (o : OobF D s .uns) (ri : RingInv D s) :
    ((s.ustate = .idle ∧ s.rcount = 0) → (unsolicitedEventsService D s i).1 = s) ∧
    (¬ (s.ustate = .idle ∧ s.rcount = 0) →
      (s.ustate = .flushWait ∧ s.state = .flushWrite ∧ (unsolicitedEventsService D s i).1 = s) ∨
      muU D (unsolicitedEventsService D s i).1 < muU D s) := by
  constructor
  · intro ⟨h1, h2⟩
    simp [unsolicitedEventsService, h1, checkUnsolicitedBuffers, Gen.is_unsolicited_buffer_empty, h2]
  · intro hq
    by_cases hid : s.ustate = .idle
    · -- an event is taken from the queue
      right
      have hpos : 0 < s.rcount := by
        cases h0 : s.rcount with
        | zero => exact absurd ⟨hid, h0⟩ hq
        | succ k => omega
      have hne : Gen.is_unsolicited_buffer_empty (s.rcount : Int) = false := by
        simp [Gen.is_unsolicited_buffer_empty]; omega
      have hm : muU D s = s.rcount * D.EV := by simp [muU, locU, hid]
      rw [hm]
      simp only [unsolicitedEventsService, hid, checkUnsolicitedBuffers, hne, Bool.false_eq_true, if_false]
      generalize hs1 : (({ ringPop D s with ucmd := some (ringFront s).1, ucmdType := (ringFront s).2 } : St).emit (.pop (ringFront s).1 (ringFront s).2)) = s1
      have hrc : s1.rcount = s.rcount - 1 := by
        rw [← hs1]; simp [St.emit, ringPop]
      have hus : s1.ustate = .idle := by
        rw [← hs1]; simp only [St.emit, ringPop]; rw [(chk_ctl s _).1.2.1.1]; exact hid
      have key : ∀ t : St, t.rcount = s1.rcount → locU D t + 1 ≤ D.FMU → muU D t < s.rcount * D.EV := by
        intro t h1 h2
        obtain ⟨k, hk⟩ : ∃ k, s.rcount = k + 1 := ⟨s.rcount - 1, by omega⟩
        simp only [muU, h1, hrc, hk, Nat.add_sub_cancel, Nat.succ_mul]
        unfold Desc.EV; omega
      have rcf : ∀ t : St, SameR s1 t → t.rcount = s1.rcount := fun t h => h.2.2.2
      split
      · exact key _ (rcf _ (by simp)) (locU_startFormatRead D s1)
      · split
        · exact key _ (rcf _ (by simp)) (locU_startFormatTest D s1)
        · exact key _ rfl (by simp [locU, hus]; unfold Desc.FMU; omega)
    · -- an event is in progress: the queue is not touched, the local measure decreases
      have rc := unsolicitedEventsService_rc D s i s.rcount ha hv hid rfl
      have lift : locU D (unsolicitedEventsService D s i).1 < locU D s → muU D (unsolicitedEventsService D s i).1 < muU D s := by
        intro h
        unfold RC at rc
        simp only [muU, rc]; omega
      have ld := loopsU_dec D s i hf
      have af := afterFlushU_dec D s
      unfold unsolicitedEventsService at lift ⊢
      split at lift <;> rename_i hst <;> simp only [hst] at lift ⊢
      · exact absurd hst hid
      · exact Or.inr (lift (formatReadArgsU_dec D s i hst))
      · exact Or.inr (lift (formatTestArgsU_dec D s hst))
      · exact Or.inr (lift (ld.1 hst))
      · exact Or.inr (lift (ld.2 hst))
      · by_cases hc : s.state = .flushWrite
        · exact Or.inl ⟨trivial, hc, by simp [unsolicitedProcessIoWriteWait, hc]⟩
        · exact Or.inr (lift (unsolicitedProcessIoWriteWait_dec D s hst hc))
      · exact Or.inr (lift (unsolicitedProcessIoWrite_dec D s i hst hwr o))
      · exact Or.inr (lift (af.1 hst))
      · exact Or.inr (lift (af.2.1 hst))
      · exact Or.inr (lift (af.2.2.1 hst))
      · exact Or.inr (lift (af.2.2.2 hst))

/-! ### `cat_service` as a whole -/

/-- the environment of a call in which the library is left to finish its work: no input byte, the
output accepts, the mutex calls succeed, handlers give final answers (not NEXT / DATA_NEXT / HOLD)
and make no API calls of their own -/
structure TermIn (i : SvcIn) : Prop where
  rd : i.rd = none
  wr : i.wr = true
  lk : i.lock = 0
  ul : i.unlock = 0
  hc : Final i.hc.ret
  hu : Final i.hu.ret
  ahc : noApi i.hc.acts = true
  ahu : noApi i.hu.acts = true
  avc : noApi i.vc.acts = true
  avu : noApi i.vu.acts = true

/-- the invariants the decrease needs, and: no command is held -/
structure Live (D : Desc) (s : St) : Prop where
  num : 0 < D.commandsNum
  wf : Wf D s
  ub : UbAll D s
  oob : OobAll D s
  hold : HoldCpl s
  nohold : s.state ≠ .hold

theorem muU_congr (D : Desc) {s s' : St} (hu : SameU' s s') (hp : s'.uposition = s.uposition) (hr : s'.rcount = s.rcount) :
    muU D s' = muU D s := by
  simp only [muU, hr, locU_congr D hu hp]

/-- **One body of `cat_service`**: the invariants are kept, and either the call reports OK or the
measure has decreased. -/
theorem serviceBody_live (D : Desc) (s : St) (i : SvcIn) (t : TermIn i) (l : Live D s) :
    Live D (serviceBody D s i).1 ∧
    ((serviceBody D s i).2 = Gen.CAT_STATUS_OK ∨ mu D (serviceBody D s i).1 < mu D s) := by
  have hu4 : i.hu.ret ≠ 4 := t.hu.2.2
  have so := serviceBody_oob s i hu4 l.num l.wf l.ub l.oob
  have su := serviceBody_noUb D s i hu4 l.num l.ub
  have sh := serviceBody_holdCpl D s i hu4 l.hold
  -- the unsolicited machine's step
  have ud := unsolicitedEventsService_dec D s i t.wr t.hu t.ahu t.avu l.oob.u l.wf.ring
  have kc := unsolicitedEventsService_keepsC D s i hu4
  have uret := unsolicitedEventsService_ret D s i
  have us := unsolicitedEventsService_oob s i l.wf l.ub.2 l.oob.u
  have kr := unsolicitedEventsService_keepsCR D s i
  have ubu := unsolicitedEventsService_ubStepU D s i l.ub.2
  simp only [KeepsCH, SameC'] at kc
  unfold serviceBody at so su sh ⊢
  simp only at so su sh ⊢
  generalize hr1 : unsolicitedEventsService D s i = r1 at ud kc uret us kr ubu so su sh
  obtain ⟨s1, ur⟩ := r1
  simp only at ud kc uret us kr ubu so su sh ⊢
  have mc1 : muC D s1 = muC D s := muC_congr D kc.1 kc.2.1
  have st1 : s1.state = s.state := kc.1.2.2.2.2.2.2.2.1
  have hold1 : HoldCpl s1 := by unfold HoldCpl at *; rw [kc.2.2, st1]; exact l.hold
  have nh1 : s1.state ≠ .hold := by rw [st1]; exact l.nohold
  have reg1 : SameReg D .cmd s s1 := sameReg_cmd_of_take kr.1
  have oc1 : OobF D s1 .cmd := OobF.reg (by simp only [St.ph]; rw [st1]) kc.1.2.2.2.2.2.2.2.2.2.1 kc.1.2.2.2.2.2.2.2.2.2.2.1 kc.2.1 reg1
    (fun h => by simp only [St.waiting] at h ⊢; rw [← st1]; exact h) l.oob.c
  have ui1 : UbInv D s1 := by
    have a1 := st1
    have a2 := kc.1.1
    have a3 := kc.1.2.2.2.2.1
    have a4 := kc.1.2.2.2.2.2.2.2.2.2.2.2.1
    have a5 := kc.2.1
    exact ⟨fun x => by rw [a2]; exact l.ub.1.idx (by rw [← a1, ← a4]; exact x), fun x => by rw [a2]; exact l.ub.1.name (by rw [← a1]; exact x),
      fun x => by rw [a3]; exact l.ub.1.cmd (by simp only [NeedsCmd] at x ⊢; rw [← a1, ← a4]; exact x),
      fun x => by rw [a2, a3]; exact l.ub.1.var (by rw [← a1]; exact x), fun x => by rw [a5]; exact l.ub.1.pos (by rw [← a1]; exact x)⟩
  -- the command machine's step
  have cd := commandService_dec D s1 i t.rd t.wr t.hc ui1 oc1 hold1 nh1
  have ku := commandService_keepsU D s1 i
  have crc := commandService_rc D s1 i s1.rcount t.ahc t.avc rfl
  have cret := commandService_ret D s1 i
  have cnh := commandService_nohold D s1 i t.hc hold1 nh1
  simp only [KeepsU] at ku
  unfold RC at crc
  generalize hr2 : commandService D s1 i = r2 at cd ku crc cret cnh so su sh
  obtain ⟨s2, cr⟩ := r2
  simp only at cd ku crc cret cnh so su sh ⊢
  have mu2 : muU D s2 = muU D s1 := muU_congr D ku.1 ku.2 crc
  refine ⟨⟨l.num, so.2.1, su.2, so.2.2, sh, cnh⟩, ?_⟩
  unfold mu
  by_cases hq : s.ustate = .idle ∧ s.rcount = 0
  · -- nothing queued, nothing in progress on the unsolicited side
    have e1 : s1 = s := by have := ud.1 hq; simpa using this
    subst e1
    by_cases hr : Reading s1.state
    · left
      have e2 := cd.1 hr
      have e3 : s2 = s1.emit (.rd none) ∧ cr = Gen.CAT_STATUS_OK := by
        have := Prod.mk.inj e2; exact ⟨this.1, this.2⟩
      rw [e3.2]
      have : Gen.service_merge ur s2.ustate.code (s2.rcount : Int) = false := by
        rw [e3.1]
        simp [uret, hq.1, Gen.service_merge, St.emit, UState.code, hq.2, Gen.is_unsolicited_fsm_busy,
          Gen.is_unsolicited_buffer_empty, Gen.CAT_STATUS_OK, Gen.CAT_UNSOLICITED_STATE_IDLE]
      simp [this]
    · right
      rcases cd.2 hr with ⟨_, h2, _⟩ | h
      · rw [hq.1] at h2; exact absurd h2 (by decide)
      · rw [mu2]; omega
  · rcases ud.2 hq with ⟨h1, h2, h3⟩ | h
    · -- the unsolicited machine waits for the command machine, which is sending
      have e1 : s1 = s := by simpa using h3
      subst e1
      have hr : ¬ Reading s1.state := by rw [h2]; decide
      right
      rcases cd.2 hr with ⟨g1, _, _⟩ | g
      · rw [h2] at g1; exact absurd g1 (by decide)
      · rw [mu2]; omega
    · right
      have h' : muU D s1 < muU D s := by simpa using h
      by_cases hr : Reading s1.state
      · have e2 := cd.1 hr
        have e3 : s2 = s1.emit (.rd none) := (Prod.mk.inj e2).1
        have : muC D s2 = muC D s1 := by rw [e3]; exact muC_congr D (by simp) (by simp)
        rw [mu2, this, mc1]; omega
      · rcases cd.2 hr with ⟨_, _, g3⟩ | g
        · have e3 : s2 = s1 := by simpa using g3
          rw [mu2, e3, mc1]; omega
        · rw [mu2]; omega

theorem Live.emit {D : Desc} {s : St} (l : Live D s) (e : Ev) : Live D (s.emit e) := by
  have st := Still.emit s e
  have k := st.keep (l.wf.ring.congr (by simp)) l.wf l.oob
  exact ⟨l.num, k.1, (UbSame.emit s e).inv l.ub.1 l.ub.2, k.2, by simpa [HoldCpl, St.emit] using l.hold, by simpa [St.emit] using l.nohold⟩

theorem mu_emit (D : Desc) (s : St) (e : Ev) : mu D (s.emit e) = mu D s := by
  unfold mu
  rw [muC_congr D (s := s) (by simp) (by simp), muU_congr D (s := s) (by simp) (by simp) (by simp)]

/-- **One call of `cat_service`** (mutex calls succeeding): OK, or the measure has decreased. -/
theorem service_live (D : Desc) (s : St) (i : SvcIn) (t : TermIn i) (l : Live D s) :
    Live D (service D s i).1 ∧ ((service D s i).2 = Gen.CAT_STATUS_OK ∨ mu D (service D s i).1 < mu D s) := by
  unfold service withMutex
  split
  · simp only [t.lk, t.ul, ne_eq, not_true_eq_false, if_false]
    have b := serviceBody_live D (s.emit (.lock 0)) i t (l.emit _)
    refine ⟨b.1.emit _, ?_⟩
    rcases b.2 with h | h
    · exact Or.inl h
    · right; rw [mu_emit, ← mu_emit D s (.lock 0)]; exact h
  · exact serviceBody_live D s i t l

/-- the state and the results of a run of `cat_service` calls -/
def runSvc (D : Desc) : St → List SvcIn → St × List Int
  | s, [] => (s, [])
  | s, i :: r =>
    let (s1, ret) := service D { s with log := [] } i
    let (s2, rs) := runSvc D s1 r
    (s2, ret :: rs)

theorem Live.clear {D : Desc} {s : St} (l : Live D s) : Live D { s with log := [] } := by
  have st : Still s ({ s with log := [] } : St) := ⟨⟨by simp, by simp, by simp, by simp⟩, rfl, rfl⟩
  have k := st.keep (l.wf.ring.congr (by simp)) l.wf l.oob
  exact ⟨l.num, k.1, (show UbSame s { s with log := [] } from ⟨rfl, rfl, rfl, rfl, rfl, rfl, rfl, rfl, rfl, rfl, rfl⟩).inv l.ub.1 l.ub.2, k.2,
    by simpa [HoldCpl] using l.hold, by simpa using l.nohold⟩

theorem mu_clear (D : Desc) (s : St) : mu D ({ s with log := [] } : St) = mu D s := by
  unfold mu
  rw [muC_congr D (s := s) (by simp) (by simp), muU_congr D (s := s) (by simp) (by simp) (by simp)]

/-- **Liveness**: from any state in which no command is held, a run of `mu D s + 1` (or more) calls in
which no input arrives, the output accepts and the handlers give final answers contains a call that
reports OK — at the latest the one with index `mu D s`. -/
theorem runSvc_live (D : Desc) : ∀ (is : List SvcIn) (s : St), (∀ i ∈ is, TermIn i) → Live D s → mu D s < is.length →
    ∃ k, k ≤ mu D s ∧ (runSvc D s is).2[k]? = some Gen.CAT_STATUS_OK := by
  intro is
  induction is with
  | nil => intro s _ _ h; simp at h
  | cons i r ih =>
    intro s ht l hlen
    have sv := service_live D { s with log := [] } i (ht i (by simp)) l.clear
    rw [mu_clear] at sv
    simp only [runSvc]
    generalize service D { s with log := [] } i = r1 at sv
    obtain ⟨s1, ret⟩ := r1
    simp only at sv ⊢
    rcases sv.2 with h | h
    · exact ⟨0, Nat.zero_le _, by simp [h]⟩
    · have := ih s1 (fun j hj => ht j (by simp [hj])) sv.1 (by simp only [List.length_cons] at hlen; omega)
      obtain ⟨k, hk, he⟩ := this
      exact ⟨k + 1, by omega, by simpa using he⟩

/-! ### the measure is bounded by an explicit expression in the sizes -/

theorem stepsLeft_le (K ws pos : Nat) (src : WSrc) : stepsLeft K ws src pos ≤ FL K := by
  unfold stepsLeft FL
  have h1 : (3 - ws) * (K + 4) ≤ 3 * (K + 4) := Nat.mul_le_mul_right _ (by omega)
  cases src <;> simp only <;> omega

theorem listLeft_le (D : Desc) (index : Nat) (t : CmdType) : listLeft D index t ≤ D.commandsNum * D.PER + D.PER + D.ACKF + 1 := by
  unfold listLeft
  have h1 : (D.commandsNum - index - 1) * D.PER ≤ D.commandsNum * D.PER := Nat.mul_le_mul_right _ (by omega)
  have h2 : (6 - t.stage) * (D.FLR + 1) ≤ 6 * (D.FLR + 1) := Nat.mul_le_mul_right _ (by omega)
  have h3 : 6 * (D.FLR + 1) = D.PER := rfl
  omega

theorem muC_le (D : Desc) (s : St) : muC D s ≤ D.MUC := by
  have sl := stepsLeft_le D.cmdCap s.writeState s.position s.writeSrc
  have ll := listLeft_le D s.index s.cmdType
  have hfm : D.FMR ≤ D.FMT := by unfold Desc.FMR Desc.FMT Desc.TL Desc.RL; omega
  have aft : aftC D s ≤ D.FMT + D.commandsNum * D.PER + D.PER + D.ACKF + 2 := by
    unfold aftC aftOf; split <;> omega
  unfold muC Desc.MUC
  split <;> (try omega)
  all_goals (simp only [Desc.SEARCH0, Desc.FOUND, Desc.RUN, Desc.FMR, Desc.FMT, Desc.TL, Desc.RL, Desc.WL, Desc.LISTALL] at *; omega)

/-- **the measure is bounded**: a constant of the descriptor plus a constant per queued event -/
theorem mu_le (D : Desc) (s : St) : mu D s ≤ D.MUC + s.rcount * D.EV + FL D.unsCap + D.EV := by
  have hc := muC_le D s
  have sl := stepsLeft_le D.unsCap s.uwriteState s.uposition s.uwriteSrc
  have hl : locU D s ≤ FL D.unsCap + D.EV := by
    unfold locU Desc.EV
    have : ∀ a, aftU D a ≤ 1 + D.FMU := by intro a; unfold aftU; split <;> omega
    have ha := this s.uwriteStateAfter
    split <;> (try omega)
    all_goals (unfold Desc.FMU Desc.RLU Desc.FLOKU; omega)
  unfold mu muU
  omega

end Cat
