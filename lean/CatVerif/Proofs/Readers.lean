/-
  Translator item T8: the model's line-framing state functions — the six functions that read a
  byte and dispatch on it (`error_state`, `process_idle_state`, `parse_prefix`, `parse_command`,
  `wait_read_acknowledge`, `wait_test_acknowledge`) — are the ones generated from the `switch
  (self->current_char)` statements of `src/cat.c` (`Gen/Readers.lean`, regenerated on every run):
  which byte leads where, which bytes are ignored, where CR is recorded, where the request type is
  set, where a line is given up.  C01 (one answer per line), C02 (suffix ⇒ request type) and C20
  (line framing, CR/LF handling) rest on exactly these decisions.  Only `read_cmd_char` itself
  (case folding outside argument collection) stays hand-modelled and tied by the correspondence.
-/
import CatVerif.Gen.Readers
namespace Cat

theorem errorState_generated : errorState = Gen.error_state := by
  funext D s i; unfold errorState Gen.error_state; rfl

theorem processIdleState_generated (D : Desc) : processIdleState = Gen.process_idle_state D := by
  funext s i; unfold processIdleState Gen.process_idle_state; rfl

theorem parsePrefix_generated : parsePrefix = Gen.parse_prefix := by
  funext D s i; unfold parsePrefix Gen.parse_prefix; rfl

theorem parseCommand_generated : parseCommand = Gen.parse_command := by
  funext D s i; unfold parseCommand Gen.parse_command; rfl

theorem waitReadAcknowledge_generated (D : Desc) : waitReadAcknowledge = Gen.wait_read_acknowledge D := by
  funext s i; unfold waitReadAcknowledge Gen.wait_read_acknowledge; rfl

theorem waitTestAcknowledge_generated : waitTestAcknowledge = Gen.wait_test_acknowledge := by
  funext D s i; unfold waitTestAcknowledge Gen.wait_test_acknowledge; rfl

end Cat
