/-
  Trace-level FIFO (C13): over any history, the events taken from the ring, followed by the events
  still waiting, are exactly the accepted triggers in acceptance order.
-/
import CatVerif.Proofs.RingInvP
import CatVerif.Proofs.Log
namespace Cat
open St

/-- triggers accepted from inside callbacks, as logged (`nestedTrig c t OK`) -/
def accIn (l : List Ev) : List (Nat × CmdType) :=
  l.filterMap (fun e => match e with
    | .nestedTrig c t r => if r = Gen.CAT_STATUS_OK then some (c, cmdTypeOfInt t) else none
    | _ => none)

/-- events taken from the ring, as logged -/
def popsIn (l : List Ev) : List (Nat × CmdType) :=
  l.filterMap (fun e => match e with
    | .pop c t => some (c, t)
    | _ => none)

@[simp] theorem accIn_append (a b : List Ev) : accIn (a ++ b) = accIn a ++ accIn b := by simp [accIn]
@[simp] theorem popsIn_append (a b : List Ev) : popsIn (a ++ b) = popsIn a ++ popsIn b := by simp [popsIn]

theorem accIn_tr (l : List Ev) : accIn l = accIn (tr .nested l) := by
  induction l with
  | nil => rfl
  | cons e r ih =>
    have : e :: r = [e] ++ r := rfl
    rw [this, accIn_append, tr_append, accIn_append, ih]
    congr 1
    cases e <;> simp [accIn, tr, cls] <;> (rename_i f _ _ _; cases f <;> simp [cls])

theorem popsIn_tr (l : List Ev) : popsIn l = popsIn (tr .pop l) := by
  induction l with
  | nil => rfl
  | cons e r ih =>
    have : e :: r = [e] ++ r := rfl
    rw [this, popsIn_append, tr_append, popsIn_append, ih]
    congr 1
    cases e <;> simp [popsIn, tr, cls] <;> (rename_i f _ _ _; cases f <;> simp [cls])

/-- ring fields and the two event classes unchanged -/
def SameQ (s s' : St) : Prop :=
  SameR s s' ∧ popsIn s'.log = popsIn s.log ∧ accIn s'.log = accIn s.log

theorem SameQ.of_quiet {s s' : St} (h : SameR s s') (hp : tr .pop s'.log = tr .pop s.log)
    (hn : tr .nested s'.log = tr .nested s.log) : SameQ s s' :=
  ⟨h, by rw [popsIn_tr, hp, ← popsIn_tr], by rw [accIn_tr, hn, ← accIn_tr]⟩

theorem SameQ.refl (s : St) : SameQ s s := ⟨by simp, rfl, rfl⟩
theorem SameQ.trans {a b c : St} (h1 : SameQ a b) (h2 : SameQ b c) : SameQ a c := by
  obtain ⟨r1, p1, n1⟩ := h1
  obtain ⟨r2, p2, n2⟩ := h2
  refine ⟨?_, p2.trans p1, n2.trans n1⟩
  simp only [SameR] at *
  exact ⟨r2.1.trans r1.1, r2.2.1.trans r1.2.1, r2.2.2.1.trans r1.2.2.1, r2.2.2.2.trans r1.2.2.2⟩

theorem ringItems_congr {D : Desc} {s s' : St} (h : SameR s s') : ringItems D s' = ringItems D s := by
  simp only [SameR] at h
  simp [ringItems, h.1, h.2.2.1, h.2.2.2]

/-- the queue law relative to a base list: `base ++ accepted = taken ++ waiting` -/
structure QInv (D : Desc) (base : List (Nat × CmdType)) (s : St) : Prop where
  ring : RingInv D s
  eq : base ++ accIn s.log = popsIn s.log ++ ringItems D s

theorem QInv.congr {D : Desc} {base : List (Nat × CmdType)} {s s' : St} (h : SameQ s s') (q : QInv D base s) :
    QInv D base s' :=
  ⟨q.ring.congr h.1, by rw [h.2.1, h.2.2, ringItems_congr h.1]; exact q.eq⟩

theorem SameQ.emit (s : St) (e : Ev) (h1 : cls e ≠ .pop) (h2 : cls e ≠ .nested) : SameQ s (s.emit e) := by
  apply SameQ.of_quiet (by simp) <;> simp [St.emit, h1, h2]

theorem SameQ.emit_exit (s : St) (st r : Int) : SameQ s (s.emit (.nestedExit st r)) :=
  ⟨by simp, by simp [St.emit, popsIn], by simp [St.emit, accIn]⟩

/-- a trigger made from inside a callback: push, (unlock,) then log the result -/
theorem nestedPush_q (D : Desc) (base : List (Nat × CmdType)) (s u : St) (c : Nat) (t : Int) (q : QInv D base s)
    (hu : SameQ (pushUnsolicited D s c (cmdTypeOfInt t)).1 u) :
    QInv D base (u.emit (.nestedTrig c t (pushUnsolicited D s c (cmdTypeOfInt t)).2)) := by
  have ulog : accIn u.log = accIn (pushUnsolicited D s c (cmdTypeOfInt t)).1.log ∧
      popsIn u.log = popsIn (pushUnsolicited D s c (cmdTypeOfInt t)).1.log := by
    exact ⟨hu.2.2, hu.2.1⟩
  have uitems : ∀ e, ringItems D (u.emit e) = ringItems D (pushUnsolicited D s c (cmdTypeOfInt t)).1 := by
    intro e
    rw [ringItems_congr (s := u) (by simp), ringItems_congr hu.1]
  have uring : ∀ e, RingInv D (pushUnsolicited D s c (cmdTypeOfInt t)).1 → RingInv D (u.emit e) := by
    intro e h; exact (h.congr hu.1).congr (by simp)
  by_cases h : s.rcount = D.cap
  · have pf := push_full D s c (cmdTypeOfInt t) h
    refine ⟨uring _ (by rw [pf]; exact q.ring), ?_⟩
    rw [uitems]
    simp only [St.emit, accIn_append, popsIn_append, ulog.1, ulog.2]
    rw [pf]
    have e1 : accIn [Ev.nestedTrig c t Gen.CAT_STATUS_ERROR_BUFFER_FULL] = [] := by
      simp [accIn, Gen.CAT_STATUS_ERROR_BUFFER_FULL, Gen.CAT_STATUS_OK]
    have e2 : popsIn [Ev.nestedTrig c t Gen.CAT_STATUS_ERROR_BUFFER_FULL] = [] := by simp [popsIn]
    simp only [e1, e2, List.append_nil]
    exact q.eq
  · have hlt : s.rcount < D.cap := by have := q.ring.count_le; omega
    obtain ⟨r, ri, items, _⟩ := push_ok D s c (cmdTypeOfInt t) q.ring hlt
    have hlog : (pushUnsolicited D s c (cmdTypeOfInt t)).1.log = s.log := by
      have := pushUnsolicited_frame D s c (cmdTypeOfInt t); simp_all
    refine ⟨uring _ ri, ?_⟩
    rw [uitems, r]
    simp only [St.emit, accIn_append, popsIn_append, ulog.1, ulog.2, hlog]
    have e1 : accIn [Ev.nestedTrig c t Gen.CAT_STATUS_OK] = [(c, cmdTypeOfInt t)] := by simp [accIn]
    have e2 : popsIn [Ev.nestedTrig c t Gen.CAT_STATUS_OK] = [] := by simp [popsIn]
    rw [e1, e2, items, ← List.append_assoc, q.eq]; simp

theorem applyNested_q (D : Desc) (base : List (Nat × CmdType)) (f : Fsm) (e : Bool) (acts : List Nested) :
    ∀ s : St, QInv D base s → QInv D base (applyNested D f e s acts) := by
  induction acts with
  | nil => intro s h; simpa [applyNested] using h
  | cons a r ih =>
    intro s q
    cases a with
    | trigger c t =>
      simp only [applyNested, withMutex]
      split
      · apply ih
        simp only [show ¬ ((0 : Int) ≠ 0) by decide, if_false]
        have q1 : QInv D base (s.emit (.lock 0)) := q.congr (.emit _ _ (by simp [cls]) (by simp [cls]))
        exact nestedPush_q D base (s.emit (.lock 0)) _ c t q1 (.emit _ _ (by simp [cls]) (by simp [cls]))
      · apply ih
        exact nestedPush_q D base s _ c t q (.refl _)
    | holdExit st =>
      simp only [applyNested, withMutex]
      have hx : ∀ a : St, SameQ a (holdExit a st).1 := by
        intro a; apply SameQ.of_quiet <;> simp
      split
      · apply ih
        split
        · exact q.congr ((SameQ.emit _ _ (by simp [cls]) (by simp [cls])).trans (.emit_exit _ _ _))
        · refine q.congr ?_
          refine (SameQ.emit s (.lock 0) (by simp [cls]) (by simp [cls])).trans ?_
          refine (hx _).trans ?_
          refine (SameQ.emit _ (.unlock 0) (by simp [cls]) (by simp [cls])).trans ?_
          simp only [show ¬ ((0 : Int) ≠ 0) by decide, if_false]
          exact .emit_exit _ _ _
      · apply ih
        exact q.congr ((hx s).trans (.emit_exit _ _ _))
    | poke slot off bs =>
      simp only [applyNested]
      split <;> (apply ih; exact QInv.congr (s := s) ⟨by simp, rfl, rfl⟩ q)
    | edit bs =>
      simp only [applyNested]
      split <;> (apply ih; exact QInv.congr (s := s) ⟨by simp, by simp, by simp⟩ q)
    | report n =>
      simp only [applyNested]
      split <;> (apply ih; exact QInv.congr (s := s) ⟨by simp, by simp, by simp⟩ q)

theorem varWriteCb_q (D : Desc) (base : List (Nat × CmdType)) (s : St) (v : VarD) (i : SvcIn) (q : QInv D base s) :
    QInv D base (varWriteCb D s v i).1 := by
  unfold varWriteCb; split
  · exact applyNested_q D base _ _ _ _ (q.congr (.emit _ _ (by simp [cls]) (by simp [cls])))
  · exact q
theorem varReadCb_q (D : Desc) (base : List (Nat × CmdType)) (s : St) (f : Fsm) (v : VarD) (i : SvcIn) (q : QInv D base s) :
    QInv D base (varReadCb D s f v i).1 := by
  unfold varReadCb; simp only; split
  · exact applyNested_q D base _ _ _ _ (q.congr (by cases f <;> exact .emit _ _ (by simp [cls]) (by simp [cls])))
  · exact q

/-- shorthand: a step that is `SameR` and quiet for both classes -/
macro "sameq" r:tacticSeq "," p:term "," n:term : tactic =>
  `(tactic| exact QInv.congr (SameQ.of_quiet (by $r) $p $n) (by assumption))

theorem doCalls_cmd_sameQ (D : Desc) (s : St) (cs : List Call) : SameQ s (doCalls D .cmd s cs) :=
  .of_quiet (doCalls_R D .cmd cs s) (doCalls_cmd_quiet .pop (by decide) (by decide) D cs s)
    (doCalls_cmd_quiet .nested (by decide) (by decide) D cs s)

/-- **One step of the command machine keeps the queue law** (its callbacks may push). -/
theorem commandService_q (D : Desc) (base : List (Nat × CmdType)) (s : St) (i : SvcIn) (q : QInv D base s) :
    QInv D base (commandService D s i).1 := by
  unfold commandService
  split
  · sameq (simp [errorState]; rr), errorState_quiet .pop (by decide) (by decide) (by decide) D s i, errorState_quiet .nested (by decide) (by decide) (by decide) D s i
  · sameq (simp [processIdleState]; rr), processIdleState_quiet .pop (by decide) s i, processIdleState_quiet .nested (by decide) s i
  · sameq (simp [parsePrefix, prepareParseCommand]; rr), parsePrefix_quiet .pop (by decide) (by decide) (by decide) D s i, parsePrefix_quiet .nested (by decide) (by decide) (by decide) D s i
  · sameq (simp [parseCommand, prepareSearchCommand]; rr), parseCommand_quiet .pop (by decide) (by decide) (by decide) D s i, parseCommand_quiet .nested (by decide) (by decide) (by decide) D s i
  · sameq (simp [updateCommand, updateAdvance, updateLane, prepareSearchCommand]; rr), updateCommand_quiet .pop D s, updateCommand_quiet .nested D s
  · sameq (simp [waitReadAcknowledge, prepareSearchCommand]; rr), waitReadAcknowledge_quiet .pop (by decide) s i, waitReadAcknowledge_quiet .nested (by decide) s i
  · sameq (simp [searchCommand, notFoundOrError]; rr), searchCommand_quiet .pop D s, searchCommand_quiet .nested D s
  · sameq (simp [commandFound]; rr), commandFound_quiet .pop (by decide) (by decide) D s, commandFound_quiet .nested (by decide) (by decide) D s
  · sameq (simp [commandNotFound]), commandNotFound_quiet .pop (by decide) (by decide) D s, commandNotFound_quiet .nested (by decide) (by decide) D s
  · sameq (simp [parseCommandArgs]; rr), parseCommandArgs_quiet .pop (by decide) (by decide) (by decide) D s i, parseCommandArgs_quiet .nested (by decide) (by decide) (by decide) D s i
  · -- parse_write_args: the variable callback may trigger events
    simp only [parseWriteArgs]
    generalize hs0 : (s.chkUb s.cmd.isSome).chkUb _ = s0
    have h0 : QInv D base s0 := q.congr (by subst hs0; exact .of_quiet (by simp) (by simp) (by simp))
    generalize hv : (D.cmdD (s.chkUb s.cmd.isSome).cmd).varAt _ = v
    have h1 : QInv D base (parseVarValue D s0 v).1 :=
      h0.congr (.of_quiet (by simp) (parseVarValue_quiet .pop (by decide) D s0 v) (parseVarValue_quiet .nested (by decide) D s0 v))
    have ak : ∀ t : St, SameQ t (ackError D t) ∧ SameQ t (ackOk D t) := fun t =>
      ⟨.of_quiet (by simp) (ackError_quiet .pop (by decide) (by decide) D t) (ackError_quiet .nested (by decide) (by decide) D t),
       .of_quiet (by simp) (ackOk_quiet .pop (by decide) (by decide) D t) (ackOk_quiet .nested (by decide) (by decide) D t)⟩
    split
    · exact h1.congr (ak _).1
    · have h2 := varWriteCb_q D base (parseVarValue D s0 v).1 v i h1
      split
      · exact h2.congr (ak _).1
      · generalize (varWriteCb D (parseVarValue D s0 v).1 v i).1 = u at h2
        have e1 : ∀ t : St, tr .pop (ackError D t).log = tr .pop t.log ∧ tr .nested (ackError D t).log = tr .nested t.log ∧
            tr .pop (ackOk D t).log = tr .pop t.log ∧ tr .nested (ackOk D t).log = tr .nested t.log := fun t =>
          ⟨ackError_quiet .pop (by decide) (by decide) D t, ackError_quiet .nested (by decide) (by decide) D t,
           ackOk_quiet .pop (by decide) (by decide) D t, ackOk_quiet .nested (by decide) (by decide) D t⟩
        (repeat' split) <;> (refine QInv.congr (s := u) ?_ h2; apply SameQ.of_quiet <;> simp [e1])
  · simp only [formatReadArgs]
    generalize hs0 : (s.chkUb (s.cmdOf .cmd).isSome).chkUb _ = s0
    have h0 : QInv D base s0 := q.congr (by subst hs0; exact .of_quiet (by simp) (by simp) (by simp))
    generalize hv : (D.cmdD ((s.chkUb (s.cmdOf Fsm.cmd).isSome).cmdOf Fsm.cmd)).varAt _ = v
    have h1 := varReadCb_q D base s0 .cmd v i h0
    have ak : ∀ t : St, SameQ t (endError D t .cmd) := fun t =>
      .of_quiet (by simp) (endError_cmd_quiet .pop (by decide) (by decide) D t) (endError_cmd_quiet .nested (by decide) (by decide) D t)
    split
    · exact h1.congr (ak _)
    · have h2 : QInv D base (formatVar D (varReadCb D s0 .cmd v i).1 .cmd v).1 :=
        h1.congr (.of_quiet (by simp) (formatVar_quiet .pop D _ .cmd v) (formatVar_quiet .nested D _ .cmd v))
      split
      · exact h2.congr (ak _)
      · have h3 : QInv D base (nextFormatVar D (formatVar D (varReadCb D s0 .cmd v i).1 .cmd v).1 .cmd).1 :=
          h2.congr (.of_quiet (by simp) (nextFormatVar_cmd_quiet .pop (by decide) (by decide) D _) (nextFormatVar_cmd_quiet .nested (by decide) (by decide) D _))
        (repeat' split)
        · exact h3
        · exact h3.congr (.of_quiet (by simp) (by simp) (by simp))
        · exact h3.congr (.of_quiet (by simp) (startFlush_cmd_quiet .pop (by decide) _ _) (startFlush_cmd_quiet .nested (by decide) _ _))
  · sameq (simp [waitTestAcknowledge]; rr), waitTestAcknowledge_quiet .pop (by decide) (by decide) (by decide) D s i, waitTestAcknowledge_quiet .nested (by decide) (by decide) (by decide) D s i
  · sameq (simp [formatTestArgs]; rr), formatTestArgs_cmd_quiet .pop (by decide) (by decide) D s, formatTestArgs_cmd_quiet .nested (by decide) (by decide) D s
  · simp only [processWriteLoop]
    exact (applyNested_q D base _ _ _ _ (q.congr (.of_quiet (by simp) (by simp [St.emit, cls]) (by simp [St.emit, cls])))).congr (doCalls_cmd_sameQ D _ _)
  · simp only [processReadLoop]
    exact (applyNested_q D base _ _ _ _ (q.congr (.of_quiet (by simp) (by simp [St.emit, cls]) (by simp [St.emit, cls])))).congr (doCalls_cmd_sameQ D _ _)
  · simp only [processTestLoop]
    exact (applyNested_q D base _ _ _ _ (q.congr (.of_quiet (by simp) (by simp [St.emit, cls]) (by simp [St.emit, cls])))).congr (doCalls_cmd_sameQ D _ _)
  · simp only [processRunLoop]
    exact (applyNested_q D base _ _ _ _ (q.congr (.of_quiet (by simp) (by simp [St.emit, cls]) (by simp [St.emit, cls])))).congr (doCalls_cmd_sameQ D _ _)
  · sameq (simp [processHoldState]; rr), processHoldState_quiet .pop (by decide) (by decide) D s, processHoldState_quiet .nested (by decide) (by decide) D s
  · sameq (simp [processIoWriteWait]; rr), processIoWriteWait_quiet .pop s, processIoWriteWait_quiet .nested s
  · sameq (simp [processIoWrite]; rr), processIoWrite_quiet .pop (by decide) (by decide) D s i, processIoWrite_quiet .nested (by decide) (by decide) D s i
  · exact q.congr (.of_quiet (by simp [resetState]; rr) (by simp [resetState, cls]; split <;> simp) (by simp [resetState, cls]; split <;> simp))
  · exact q.congr (.of_quiet (by simp) (by simp) (by simp))
  · exact q.congr (.of_quiet (by simp) (by simp) (by simp))
  · exact q.congr (.of_quiet (by simp) (by simp) (by simp))
  · sameq (simp [printCmdList, printCmdForm]; rr), printCmdList_quiet .pop (by decide) (by decide) D s, printCmdList_quiet .nested (by decide) (by decide) D s

/-- the idle unsolicited machine takes the head of the queue and logs it -/
theorem checkUnsolicitedBuffers_q (D : Desc) (base : List (Nat × CmdType)) (s : St) (q : QInv D base s) :
    QInv D base (checkUnsolicitedBuffers D s) := by
  unfold checkUnsolicitedBuffers
  split
  · exact q
  · rename_i hne
    have hpos : 0 < s.rcount := by
      simp [Gen.is_unsolicited_buffer_empty] at hne; omega
    obtain ⟨hitems, hring, _, _⟩ := pop_ok D s q.ring hpos
    have hlog : (ringPop D s).log = s.log := by simp [ringPop]
    -- the state right after the pop event has been logged
    have qp : QInv D base (({ ringPop D s with ucmd := some (ringFront s).1, ucmdType := (ringFront s).2 } : St).emit (.pop (ringFront s).1 (ringFront s).2)) := by
      refine ⟨hring.congr (by simp), ?_⟩
      simp only [St.emit, accIn_append, popsIn_append, hlog]
      have e1 : accIn [Ev.pop (ringFront s).1 (ringFront s).2] = [] := by simp [accIn]
      have e2 : popsIn [Ev.pop (ringFront s).1 (ringFront s).2] = [ringFront s] := by simp [popsIn]
      have e3 : ringItems D ({ ringPop D s with ucmd := some (ringFront s).1, ucmdType := (ringFront s).2, log := s.log ++ [Ev.pop (ringFront s).1 (ringFront s).2] } : St) =
          ringItems D (ringPop D s) := ringItems_congr (by simp)
      rw [e1, e2, e3, List.append_nil, q.eq, hitems]; simp
    simp only
    (repeat' split)
    · exact qp.congr (.of_quiet (by simp) (startFormatRead_uns_quiet .pop D _) (startFormatRead_uns_quiet .nested D _))
    · exact qp.congr (.of_quiet (by simp) (startFormatTest_uns_quiet .pop (by decide) D _) (startFormatTest_uns_quiet .nested (by decide) D _))
    · exact qp

theorem doCalls_uns_sameQ (D : Desc) (s : St) (cs : List Call) (h : ∀ k ∈ cs, UnsCallQ k) : SameQ s (doCalls D .uns s cs) :=
  .of_quiet (doCalls_R D .uns cs s) (doCalls_uns_quiet .pop (by decide) D cs s h) (doCalls_uns_quiet .nested (by decide) D cs s h)

/-- **One step of the unsolicited machine keeps the queue law.** -/
theorem unsolicitedEventsService_q (D : Desc) (base : List (Nat × CmdType)) (s : St) (i : SvcIn) (q : QInv D base s) :
    QInv D base (unsolicitedEventsService D s i).1 := by
  unfold unsolicitedEventsService
  split
  · exact checkUnsolicitedBuffers_q D base s q
  · simp only [formatReadArgs]
    generalize hs0 : (s.chkUb (s.cmdOf .uns).isSome).chkUb _ = s0
    have h0 : QInv D base s0 := q.congr (by subst hs0; exact .of_quiet (by simp) (by simp) (by simp))
    generalize hv : (D.cmdD ((s.chkUb (s.cmdOf Fsm.uns).isSome).cmdOf Fsm.uns)).varAt _ = v
    have h1 := varReadCb_q D base s0 .uns v i h0
    have ak : ∀ t : St, SameQ t (endError D t .uns) := fun t =>
      .of_quiet (by simp) (endError_uns_quiet .pop D t) (endError_uns_quiet .nested D t)
    split
    · exact h1.congr (ak _)
    · have h2 : QInv D base (formatVar D (varReadCb D s0 .uns v i).1 .uns v).1 :=
        h1.congr (.of_quiet (by simp) (formatVar_quiet .pop D _ .uns v) (formatVar_quiet .nested D _ .uns v))
      split
      · exact h2.congr (ak _)
      · have h3 : QInv D base (nextFormatVar D (formatVar D (varReadCb D s0 .uns v i).1 .uns v).1 .uns).1 :=
          h2.congr (.of_quiet (by simp) (nextFormatVar_uns_quiet .pop D _) (nextFormatVar_uns_quiet .nested D _))
        (repeat' split)
        · exact h3
        · exact h3.congr (.of_quiet (by simp) (by simp) (by simp))
        · exact h3.congr (.of_quiet (by simp) (startFlush_uns_quiet .pop (by decide) _ _) (startFlush_uns_quiet .nested (by decide) _ _))
  · sameq (simp [formatTestArgs]; rr), formatTestArgs_uns_quiet .pop (by decide) D s, formatTestArgs_uns_quiet .nested (by decide) D s
  · simp only [processReadLoop]
    exact (applyNested_q D base _ _ _ _ (q.congr (.of_quiet (by simp) (by simp [St.emit, cls]) (by simp [St.emit, cls])))).congr
      (doCalls_uns_sameQ D _ _ (readTable_uns_q _))
  · simp only [processTestLoop]
    exact (applyNested_q D base _ _ _ _ (q.congr (.of_quiet (by simp) (by simp [St.emit, cls]) (by simp [St.emit, cls])))).congr
      (doCalls_uns_sameQ D _ _ (testTable_uns_q _))
  · sameq (simp [unsolicitedProcessIoWriteWait]; rr), unsolicitedProcessIoWriteWait_quiet .pop s, unsolicitedProcessIoWriteWait_quiet .nested s
  · sameq (simp [unsolicitedProcessIoWrite]; rr), unsolicitedProcessIoWrite_quiet .pop (by decide) (by decide) D s i, unsolicitedProcessIoWrite_quiet .nested (by decide) (by decide) D s i
  · exact q.congr (.of_quiet (by simp [unsolicitedResetState]) (by simp [unsolicitedResetState]) (by simp [unsolicitedResetState]))
  · exact q.congr (.of_quiet (by simp) (by simp) (by simp))
  · exact q.congr (.of_quiet (by simp) (startFormatRead_uns_quiet .pop D _) (startFormatRead_uns_quiet .nested D _))
  · exact q.congr (.of_quiet (by simp) (startFormatTest_uns_quiet .pop (by decide) D _) (startFormatTest_uns_quiet .nested (by decide) D _))

/-! ### whole API calls and histories -/

theorem withMutex_q (D : Desc) (base : List (Nat × CmdType)) (s : St) (lk ul : Int) (body : St → St × Int)
    (hbody : ∀ a, QInv D base a → QInv D base (body a).1) (q : QInv D base s) :
    QInv D base (withMutex D s lk ul body).1 := by
  unfold withMutex
  split
  · split
    · exact q.congr (.emit _ _ (by simp [cls]) (by simp [cls]))
    · have q1 := hbody _ (q.congr (.emit s (.lock lk) (by simp [cls]) (by simp [cls])))
      simp only
      split <;> exact q1.congr (.emit _ (.unlock ul) (by simp [cls]) (by simp [cls]))
  · exact hbody _ q

theorem service_q (D : Desc) (base : List (Nat × CmdType)) (s : St) (i : SvcIn) (q : QInv D base s) :
    QInv D base (service D s i).1 := by
  unfold service
  exact withMutex_q D base s i.lock i.unlock _ (fun a h => by
    unfold serviceBody
    exact commandService_q D base _ i (unsolicitedEventsService_q D base a i h)) q

/-- the event a top-level trigger call has queued, judged by its return code -/
def accOp (op : Op) (ret : Int) : List (Nat × CmdType) :=
  match op with
  | .trigger c t _ _ => if ret = Gen.CAT_STATUS_OK then [(c, cmdTypeOfInt t)] else []
  | _ => []

/-- the unlock of a trigger call succeeds (otherwise the call reports an error although the event
has been queued, C16_unlock_failure_harmless) -/
def OpQ : Op → Prop
  | .trigger _ _ _ ul => ul = 0
  | _ => True

theorem ringItems_cap (D D' : Desc) (s : St) (h : D'.cap = D.cap) : ringItems D' s = ringItems D s := by
  simp [ringItems, h]

theorem QInv.cap {D D' : Desc} {base : List (Nat × CmdType)} {s : St} (h : D'.cap = D.cap) (q : QInv D base s) : QInv D' base s :=
  ⟨⟨by rw [h]; exact q.ring.cap_pos, by rw [h]; exact q.ring.len, by rw [h]; exact q.ring.head_lt,
    by rw [h]; exact q.ring.count_le, by rw [h]; exact q.ring.tail_eq⟩, by rw [ringItems_cap D D' s h]; exact q.eq⟩

/-- a top-level trigger call (unlock succeeding): the bracket logs nothing of the two classes; the
push appends iff the call answers OK -/
theorem catTrigger_q (D : Desc) (base : List (Nat × CmdType)) (z : St) (c : Nat) (t : Int) (lk : Int) (q0 : QInv D base z) :
    base ++ (accIn (catTrigger D z c t lk 0).1.log ++
        (if (catTrigger D z c t lk 0).2 = Gen.CAT_STATUS_OK then [(c, cmdTypeOfInt t)] else [])) =
      popsIn (catTrigger D z c t lk 0).1.log ++ ringItems D (catTrigger D z c t lk 0).1 := by
  have push : ∀ a : St, QInv D base a →
      base ++ (accIn a.log ++ (if (pushUnsolicited D a c (cmdTypeOfInt t)).2 = Gen.CAT_STATUS_OK then [(c, cmdTypeOfInt t)] else [])) =
        popsIn a.log ++ ringItems D (pushUnsolicited D a c (cmdTypeOfInt t)).1 ∧
      (pushUnsolicited D a c (cmdTypeOfInt t)).1.log = a.log := by
    intro a qa
    have hlog : (pushUnsolicited D a c (cmdTypeOfInt t)).1.log = a.log := by
      have := pushUnsolicited_frame D a c (cmdTypeOfInt t); simp_all
    refine ⟨?_, hlog⟩
    by_cases hf : a.rcount = D.cap
    · rw [push_full D a c _ hf]
      simpa [Gen.CAT_STATUS_ERROR_BUFFER_FULL, Gen.CAT_STATUS_OK] using qa.eq
    · have hlt : a.rcount < D.cap := by have := qa.ring.count_le; omega
      obtain ⟨r, _, items, _⟩ := push_ok D a c (cmdTypeOfInt t) qa.ring hlt
      rw [r, items]
      simp only [if_true]
      rw [← List.append_assoc, ← List.append_assoc, qa.eq]
  have a1 : ∀ e : Ev, cls e = .mutex → accIn [e] = [] ∧ popsIn [e] = [] := by
    intro e he; cases e <;> simp [cls] at he <;> simp [accIn, popsIn]
    all_goals (rename_i f _ _ _; cases f <;> simp [cls] at he)
  have q1 : QInv D base (z.emit (.lock lk)) := q0.congr (.emit _ _ (by simp [cls]) (by simp [cls]))
  simp only [catTrigger, withMutex]
  split
  · split
    · have := q1.eq
      simp only [St.emit, accIn_append, popsIn_append] at this ⊢
      simpa [Gen.CAT_STATUS_ERROR_MUTEX_LOCK, Gen.CAT_STATUS_OK] using this
    · obtain ⟨pe, pl⟩ := push _ q1
      generalize pushUnsolicited D (z.emit (.lock lk)) c (cmdTypeOfInt t) = pr at pe pl
      obtain ⟨p1, pret⟩ := pr
      simp only at pe pl ⊢
      simp only [show ¬ ((0 : Int) ≠ 0) by decide, if_false]
      have e3 : ringItems D (p1.emit (.unlock 0)) = ringItems D p1 := ringItems_congr (by simp)
      rw [e3]
      simp only [St.emit, accIn_append, popsIn_append, pl] at pe ⊢
      rw [(a1 (.unlock 0) rfl).1, (a1 (.unlock 0) rfl).2]
      simpa using pe
  · simpa using (push z q0).1

/-- **One API call**: what was waiting before, plus what this call accepted (from callbacks, then
by the call itself), equals what this call took from the ring plus what is waiting now. -/
theorem apply_q (w : World) (op : Op) (hq : OpQ op) (h : RingInv w.D w.s) :
    RingInv (apply w op).1.D (apply w op).1.s ∧
    ringItems w.D w.s ++ (accIn (apply w op).1.s.log ++ accOp op (apply w op).2) =
      popsIn (apply w op).1.s.log ++ ringItems (apply w op).1.D (apply w op).1.s := by
  refine ⟨apply_ring w op h, ?_⟩
  have q0 : QInv w.D (ringItems w.D w.s) ({ w.s with log := [] } : St) :=
    ⟨h.congr (by simp), by simp [accIn, popsIn]; exact (ringItems_congr (by simp)).symm⟩
  have fin : ∀ (D' : Desc) (s' : St), D'.cap = w.D.cap → QInv w.D (ringItems w.D w.s) s' →
      ringItems w.D w.s ++ (accIn s'.log ++ []) = popsIn s'.log ++ ringItems D' s' := by
    intro D' s' hc q
    rw [List.append_nil, ringItems_cap w.D D' s' hc]; exact q.eq
  cases op with
  | service i => exact fin _ _ rfl (service_q w.D _ _ i q0)
  | isBusy lk ul => exact fin _ _ rfl (withMutex_q w.D _ _ lk ul isBusyBody (fun a h => h) q0)
  | isHold lk ul => exact fin _ _ rfl (withMutex_q w.D _ _ lk ul isHoldBody (fun a h => h) q0)
  | isFull lk ul =>
    simp only [apply, catIsFull]
    exact fin _ _ rfl (withMutex_q w.D _ _ lk ul (isFullBody w.D) (fun a h => h) q0)
  | holdExit st lk ul =>
    simp only [apply, catHoldExit]
    exact fin _ _ rfl (withMutex_q w.D _ _ lk ul (fun s => holdExit s st)
      (fun a h => h.congr (.of_quiet (by simp) (by simp) (by simp))) q0)
  | buffered c t => exact fin _ _ rfl q0
  | setCmdDisable c v => exact fin _ _ (modifyCmd_cap _ _ _) q0
  | setCmdOnlyTest c v => exact fin _ _ (modifyCmd_cap _ _ _) q0
  | setGroupDisable g v => exact fin _ _ rfl q0
  | poke slot off bs =>
    simp only [apply]
    split
    · exact fin _ _ rfl (QInv.congr (s := ({ w.s with log := [] } : St)) ⟨by simp, rfl, rfl⟩ q0)
    · exact fin _ _ rfl q0
  | trigger c t lk ul =>
    have hul : ul = 0 := hq
    subst hul
    exact catTrigger_q w.D _ _ c t lk q0

/-- events accepted during a history, in acceptance order: per call, those triggered from inside
callbacks (logged with result OK), then the call itself if it is a trigger that answered OK -/
def histAccepted : World → List Op → List (Nat × CmdType)
  | _, [] => []
  | w, op :: r => (accIn (apply w op).1.s.log ++ accOp op (apply w op).2) ++ histAccepted (apply w op).1 r

/-- events taken from the ring (handed to the unsolicited machine) during a history, in order -/
def histTaken : World → List Op → List (Nat × CmdType)
  | _, [] => []
  | w, op :: r => popsIn (apply w op).1.s.log ++ histTaken (apply w op).1 r

/-- **FIFO, exactly once, over any history**: what was waiting at the start followed by everything
accepted since equals everything taken since followed by what is still waiting. -/
theorem runOps_fifo : ∀ (ops : List Op) (w : World), (∀ op ∈ ops, OpQ op) → RingInv w.D w.s →
    ringItems w.D w.s ++ histAccepted w ops =
      histTaken w ops ++ ringItems (runOps w ops).1.D (runOps w ops).1.s := by
  intro ops
  induction ops with
  | nil => intro w _ _; simp [histAccepted, histTaken, runOps]
  | cons op r ih =>
    intro w hq h
    have a := apply_q w op (hq op (by simp)) h
    have b := ih (apply w op).1 (fun o ho => hq o (by simp [ho])) a.1
    simp only [histAccepted, histTaken, runOps]
    rw [← List.append_assoc, a.2, List.append_assoc, b, List.append_assoc]

end Cat
