/-
  When `cat_service` reports OK, and what a call does when its only io attempt is refused.
-/
import CatVerif.Proofs.Hold
namespace Cat
open St

/-- the states in which the command machine's step begins with `read_cmd_char` -/
def Reading (st : CState) : Prop :=
  st = .idle ∨ st = .parsePrefix ∨ st = .parseCommandChar ∨ st = .waitReadAck ∨ st = .parseCommandArgs ∨
  st = .waitTestAck ∨ st = .error

instance (st : CState) : Decidable (Reading st) := by unfold Reading; infer_instance

/-- **Refused read**: in a reading state, when `io->read` delivers nothing, the step changes nothing
but logging the refusal, and reports OK. -/
theorem read_refused (D : Desc) (s : St) (i : SvcIn) (hr : Reading s.state) (hi : i.rd = none) :
    commandService D s i = (s.emit (.rd none), Gen.CAT_STATUS_OK) := by
  unfold Reading at hr
  rcases hr with h | h | h | h | h | h | h <;>
    simp [commandService, h, processIdleState, parsePrefix, parseCommand, waitReadAcknowledge, parseCommandArgs,
      waitTestAcknowledge, errorState, readCmdChar, hi]

/-- In every non-reading state the command machine's step reports BUSY; in a reading state it reports
OK exactly when the read was refused. -/
theorem commandService_ret (D : Desc) (s : St) (i : SvcIn) :
    (commandService D s i).2 = (if Reading s.state ∧ i.rd = none then Gen.CAT_STATUS_OK else Gen.CAT_STATUS_BUSY) := by
  by_cases hr : Reading s.state
  · cases hi : i.rd with
    | none => simp [read_refused D s i hr hi, hr]
    | some b =>
      have hcond : ¬ (Reading s.state ∧ (some b : Option Byte) = none) := by simp
      simp only [hcond, if_false]
      unfold Reading at hr
      rcases hr with h | h | h | h | h | h | h <;>
        simp [commandService, h, processIdleState, parsePrefix, parseCommand, waitReadAcknowledge, parseCommandArgs,
          waitTestAcknowledge, errorState, readCmdChar, hi]
  · have hn : ¬ (Reading s.state ∧ i.rd = none) := fun h => hr h.1
    simp only [hn, if_false]
    unfold Reading at hr
    unfold commandService
    split <;> rename_i hs <;> (try (simp [hs] at hr)) <;>
      simp [updateCommand, searchCommand, commandFound, commandNotFound, parseWriteArgs, formatReadArgs, formatTestArgs,
        processWriteLoop, processReadLoop, processTestLoop, processRunLoop, processHoldState, processIoWriteWait, processIoWrite]
    all_goals (repeat' split) <;> simp

/-- the unsolicited machine's step reports OK only from its idle state -/
theorem unsolicitedEventsService_ret (D : Desc) (s : St) (i : SvcIn) :
    (unsolicitedEventsService D s i).2 = (if s.ustate = .idle then Gen.CAT_STATUS_OK else Gen.CAT_STATUS_BUSY) := by
  unfold unsolicitedEventsService
  split <;> rename_i hs <;> simp [hs, formatReadArgs, formatTestArgs, processReadLoop, processTestLoop,
    unsolicitedProcessIoWriteWait, unsolicitedProcessIoWrite]
  all_goals (repeat' split) <;> simp

/-- nothing to do for either machine without a new stimulus -/
def Quiescent (s : St) : Prop := s.ustate = .idle ∧ s.rcount = 0 ∧ Reading s.state

/-- **OK means quiescent**: if the body of `cat_service` reports OK then afterwards the unsolicited
machine is idle with an empty queue and the command machine is waiting for input. -/
theorem serviceBody_ok_quiescent (D : Desc) (s : St) (i : SvcIn) (h : (serviceBody D s i).2 = Gen.CAT_STATUS_OK) :
    Quiescent (serviceBody D s i).1 := by
  unfold serviceBody at *
  simp only at *
  generalize hs1 : unsolicitedEventsService D s i = r1 at *
  obtain ⟨s1, us⟩ := r1
  simp only at *
  have hc := commandService_ret D s1 i
  generalize hs2 : commandService D s1 i = r2 at *
  obtain ⟨s2, r⟩ := r2
  simp only at *
  by_cases hm : Gen.service_merge us s2.ustate.code s2.rcount = true
  · simp [hm, Gen.CAT_STATUS_BUSY, Gen.CAT_STATUS_OK] at h
  · simp only [hm] at h
    simp [Gen.service_merge, Gen.is_unsolicited_fsm_busy, Gen.is_unsolicited_buffer_empty, Gen.CAT_STATUS_OK,
      Gen.CAT_UNSOLICITED_STATE_IDLE] at hm
    obtain ⟨⟨_, hu⟩, hcnt⟩ := hm
    have hidle : s2.ustate = .idle := by
      cases hh : s2.ustate <;> simp [hh, UState.code] at hu
      rfl
    refine ⟨hidle, by omega, ?_⟩
    -- the command step reported OK: it was a refused read, so the state is still a reading state
    rw [hc] at h
    by_cases hrd : Reading s1.state ∧ i.rd = none
    · have := read_refused D s1 i hrd.1 hrd.2
      rw [hs2] at this
      have : s2 = s1.emit (.rd none) := (Prod.mk.inj this).1
      rw [this]; simpa using hrd.1
    · simp [hrd, Gen.CAT_STATUS_BUSY, Gen.CAT_STATUS_OK] at h

/-- **Quiescence is stable**: from a quiescent state a further call without a deliverable input byte
reports OK again, performs no write, invokes no callback and leaves the state as it was (only the
refused read is logged). -/
theorem serviceBody_quiescent_repeat (D : Desc) (s : St) (i : SvcIn) (h : Quiescent s) (hi : i.rd = none) :
    serviceBody D s i = (s.emit (.rd none), Gen.CAT_STATUS_OK) := by
  obtain ⟨hu, hc, hr⟩ := h
  unfold serviceBody
  have e1 : unsolicitedEventsService D s i = (s, Gen.CAT_STATUS_OK) := by
    simp [unsolicitedEventsService, hu, checkUnsolicitedBuffers, Gen.is_unsolicited_buffer_empty, hc]
  simp only [e1, read_refused D s i hr hi]
  simp [Gen.service_merge, Gen.is_unsolicited_fsm_busy, Gen.is_unsolicited_buffer_empty, hu, hc, UState.code,
    Gen.CAT_UNSOLICITED_STATE_IDLE, Gen.CAT_STATUS_OK]

/-- **Refused write**: in FLUSH_IO_WRITE, when `io->write` refuses the byte, the step changes nothing
but logging the refusal; the same byte is offered again by the next call. -/
theorem write_refused (D : Desc) (s : St) (i : SvcIn) (hs : s.state = .flushWrite) (hw : i.wr = false)
    (hb : (writeByte D s .cmd).1 ≠ 0) :
    commandService D s i =
      ((s.chk (writeByte D s .cmd).2).emit (.wr .cmd (writeByte D s .cmd).1 false (unitPart s.writeState s.writeSrc)),
       Gen.CAT_STATUS_BUSY) := by
  simp [commandService, hs, processIoWrite, hw, hb]

theorem write_refused_uns (D : Desc) (s : St) (i : SvcIn) (hs : s.ustate = .flushWrite) (hw : i.wr = false)
    (hb : (writeByte D s .uns).1 ≠ 0) :
    unsolicitedEventsService D s i =
      ((s.chk (writeByte D s .uns).2).emit (.wr .uns (writeByte D s .uns).1 false (unitPart s.uwriteState s.uwriteSrc)),
       Gen.CAT_STATUS_BUSY) := by
  simp [unsolicitedEventsService, hs, unsolicitedProcessIoWrite, hw, hb]

end Cat
