/- simp set holding the definitions of the straight-line (non-recursive) functions of the model -/
import Lean
register_simp_attr ctl
