/-
  Refused io at the level of whole histories (C12): a `cat_service` call in which every io attempt
  of both machines is refused (or in which there is nothing to do) leaves the world as it was — only
  the refusals are logged — so such calls can be inserted into or removed from any history without
  changing anything that follows.
-/
import CatVerif.Proofs.Quiesce
import CatVerif.Proofs.Inv
namespace Cat
open St

/-- the unsolicited machine has nothing to do, or its write is refused -/
def StutterU (D : Desc) (s : St) (i : SvcIn) : Prop :=
  (s.ustate = .idle ∧ s.rcount = 0) ∨
  (s.ustate = .flushWrite ∧ i.wr = false ∧ (writeByte D s .uns).1 ≠ 0 ∧ (writeByte D s .uns).2 = true)

/-- the command machine's read or write is refused -/
def StutterC (D : Desc) (s : St) (i : SvcIn) : Prop :=
  (Reading s.state ∧ i.rd = none) ∨
  (s.state = .flushWrite ∧ i.wr = false ∧ (writeByte D s .cmd).1 ≠ 0 ∧ (writeByte D s .cmd).2 = true)

/-- equal except for the log of the current call -/
def SameButLog (s s' : St) : Prop := ∃ l, s' = { s with log := l }

theorem SameButLog.refl (s : St) : SameButLog s s := ⟨s.log, rfl⟩
theorem SameButLog.trans {a b c : St} (h1 : SameButLog a b) (h2 : SameButLog b c) : SameButLog a c := by
  obtain ⟨l1, e1⟩ := h1
  obtain ⟨l2, e2⟩ := h2
  exact ⟨l2, by rw [e2, e1]⟩
theorem SameButLog.emit (s : St) (e : Ev) : SameButLog s (s.emit e) := ⟨s.log ++ [e], rfl⟩

theorem stutterU_step (D : Desc) (s : St) (i : SvcIn) (h : StutterU D s i) :
    SameButLog s (unsolicitedEventsService D s i).1 ∧ StutterC D (unsolicitedEventsService D s i).1 i = StutterC D s i := by
  rcases h with ⟨h1, h2⟩ | ⟨h1, h2, h3, h4⟩
  · have e : unsolicitedEventsService D s i = (s, Gen.CAT_STATUS_OK) := by
      simp [unsolicitedEventsService, h1, checkUnsolicitedBuffers, Gen.is_unsolicited_buffer_empty, h2]
    rw [e]; exact ⟨.refl s, rfl⟩
  · rw [write_refused_uns D s i h1 h2 h3]
    simp only [h4, St.chk, if_true]
    exact ⟨.emit s _, by simp [StutterC, St.emit, writeByte, St.getB]⟩

theorem stutterC_step (D : Desc) (s : St) (i : SvcIn) (h : StutterC D s i) :
    SameButLog s (commandService D s i).1 := by
  rcases h with ⟨h1, h2⟩ | ⟨h1, h2, h3, h4⟩
  · rw [read_refused D s i h1 h2]; exact .emit s _
  · rw [write_refused D s i h1 h2 h3]
    simp only [h4, St.chk, if_true]
    exact .emit s _

/-- **A call in which everything is refused changes nothing but the log.** -/
theorem serviceBody_stutter (D : Desc) (s : St) (i : SvcIn) (hu : StutterU D s i) (hc : StutterC D s i) :
    SameButLog s (serviceBody D s i).1 := by
  have a := stutterU_step D s i hu
  unfold serviceBody
  simp only
  exact a.1.trans (stutterC_step D _ i (by rw [a.2]; exact hc))

theorem service_stutter (D : Desc) (s : St) (i : SvcIn) (hu : ∀ e, StutterU D (s.emit e) i) (hc : ∀ e, StutterC D (s.emit e) i)
    (hu0 : StutterU D s i) (hc0 : StutterC D s i) :
    SameButLog s (service D s i).1 := by
  unfold service withMutex
  split
  · split
    · exact .emit s _
    · simp only
      have b := serviceBody_stutter D (s.emit (.lock i.lock)) i (hu _) (hc _)
      split <;> exact (SameButLog.emit s _).trans (b.trans (.emit _ _))
  · exact serviceBody_stutter D s i hu0 hc0

/-- the predicates do not look at the log -/
theorem stutter_emit (D : Desc) (s : St) (i : SvcIn) (e : Ev) :
    (StutterU D (s.emit e) i ↔ StutterU D s i) ∧ (StutterC D (s.emit e) i ↔ StutterC D s i) :=
  ⟨Iff.rfl, Iff.rfl⟩

/-- `apply` forgets the log of the previous call -/
theorem apply_sameButLog (w : World) (s' : St) (h : SameButLog w.s s') (op : Op) :
    apply { w with s := s' } op = apply w op := by
  obtain ⟨l, e⟩ := h
  subst e
  cases op <;> simp [apply]

theorem runOps_cons (w : World) (op : Op) (r : List Op) :
    runOps w (op :: r) = ((runOps (apply w op).1 r).1, ((apply w op).2, (apply w op).1.s.log) :: (runOps (apply w op).1 r).2) := rfl

theorem skip_aux (w : World) (s' : St) (rest : List Op) (sb : SameButLog w.s s') :
    (runOps { w with s := s' } rest).1.D = (runOps w rest).1.D ∧
    SameButLog (runOps w rest).1.s (runOps { w with s := s' } rest).1.s ∧
    (rest ≠ [] → (runOps { w with s := s' } rest).1 = (runOps w rest).1) ∧
    (runOps { w with s := s' } rest).2 = (runOps w rest).2 := by
  cases rest with
  | nil =>
    obtain ⟨l, e⟩ := sb
    subst e
    exact ⟨rfl, ⟨l, rfl⟩, fun h => absurd rfl h, rfl⟩
  | cons op r =>
    have e : runOps { w with s := s' } (op :: r) = runOps w (op :: r) := by
      rw [runOps_cons, runOps_cons, apply_sameButLog w s' sb op]
    rw [e]
    exact ⟨rfl, .refl _, fun _ => rfl, rfl⟩

/-- **Stutter removal**: a `cat_service` call in which every io attempt is refused (and the
unsolicited machine has nothing else to do) can be removed from a history: the rest of the history
runs exactly as it would have without it — same results and events call by call, same final world
(up to the log of the last call when nothing follows). -/
theorem runOps_skip_stutter (w : World) (i : SvcIn) (rest : List Op)
    (hu : StutterU w.D w.s i) (hc : StutterC w.D w.s i) :
    (runOps w (.service i :: rest)).1.D = (runOps w rest).1.D ∧
    SameButLog (runOps w rest).1.s (runOps w (.service i :: rest)).1.s ∧
    (rest ≠ [] → (runOps w (.service i :: rest)).1 = (runOps w rest).1) ∧
    (runOps w (.service i :: rest)).2.tail = (runOps w rest).2 := by
  have hu0 : StutterU w.D ({ w.s with log := [] } : St) i := hu
  have hc0 : StutterC w.D ({ w.s with log := [] } : St) i := hc
  have sv := service_stutter w.D ({ w.s with log := [] } : St) i
    (fun e => (stutter_emit w.D _ i e).1.2 hu0) (fun e => (stutter_emit w.D _ i e).2.2 hc0) hu0 hc0
  have sb : SameButLog w.s (service w.D ({ w.s with log := [] } : St) i).1 :=
    SameButLog.trans ⟨[], rfl⟩ sv
  rw [runOps_cons]
  have e : (apply w (.service i)).1 = { w with s := (service w.D ({ w.s with log := [] } : St) i).1 } := rfl
  rw [e]
  exact skip_aux w _ rest sb

theorem runOps_append (a b : List Op) : ∀ w : World,
    runOps w (a ++ b) = ((runOps (runOps w a).1 b).1, (runOps w a).2 ++ (runOps (runOps w a).1 b).2) := by
  induction a with
  | nil => intro w; simp [runOps]
  | cons op r ih =>
    intro w
    simp only [List.cons_append, runOps_cons, ih, List.cons_append]

/-- **Refused calls anywhere in a history**: if after the operations `a` a `cat_service` call would
have all its io refused, then running it there or leaving it out makes no difference to what the
operations `b` that follow do and return, nor to the final world (up to the log of the last call). -/
theorem runOps_insert_stutter (w : World) (a b : List Op) (i : SvcIn)
    (hu : StutterU (runOps w a).1.D (runOps w a).1.s i) (hc : StutterC (runOps w a).1.D (runOps w a).1.s i) :
    (runOps w (a ++ .service i :: b)).1.D = (runOps w (a ++ b)).1.D ∧
    SameButLog (runOps w (a ++ b)).1.s (runOps w (a ++ .service i :: b)).1.s ∧
    (runOps w (a ++ .service i :: b)).2.take a.length = (runOps w (a ++ b)).2.take a.length ∧
    (runOps w (a ++ .service i :: b)).2.drop (a.length + 1) = (runOps w (a ++ b)).2.drop a.length := by
  have sk := runOps_skip_stutter (runOps w a).1 i b hu hc
  have hl : ∀ (ops : List Op) (w : World), (runOps w ops).2.length = ops.length := by
    intro ops
    induction ops with
    | nil => intro w; rfl
    | cons op r ih => intro w; simp [runOps_cons, ih]
  rw [runOps_append, runOps_append]
  have la := hl a w
  refine ⟨sk.1, sk.2.1, ?_, ?_⟩
  · simp only
    rw [List.take_append_of_le_length (by omega), List.take_append_of_le_length (by omega)]
  · simp only
    rw [List.drop_append, List.drop_append]
    have h1 : (runOps w a).2.drop (a.length + 1) = [] := List.drop_eq_nil_of_le (by omega)
    have h2 : (runOps w a).2.drop a.length = [] := List.drop_eq_nil_of_le (by omega)
    rw [h1, h2, la]
    have e1 : a.length + 1 - a.length = 1 := by omega
    rw [e1, Nat.sub_self, List.drop_zero, List.nil_append, List.nil_append, ← sk.2.2.2]
    cases (runOps (runOps w a).1 (Op.service i :: b)).2 <;> rfl

end Cat
