/-
  The line discipline over whole histories of API calls (C01).
-/
import CatVerif.Proofs.Acct
namespace Cat
open St

/-- the fields the line discipline looks at are unchanged and no result code was started -/
def LineSame (a b : St) : Prop :=
  b.state = a.state ∧ b.writeStateAfter = a.writeStateAfter ∧ b.currentChar = a.currentChar ∧
  b.cmdType = a.cmdType ∧ b.holdFlag = a.holdFlag ∧ tr .ack b.log = tr .ack a.log

theorem LineSame.refl (a : St) : LineSame a a := ⟨rfl, rfl, rfl, rfl, rfl, rfl⟩
theorem LineSame.trans (a b c : St) (h1 : LineSame a b) (h2 : LineSame b c) : LineSame a c :=
  ⟨h2.1.trans h1.1, h2.2.1.trans h1.2.1, h2.2.2.1.trans h1.2.2.1, h2.2.2.2.1.trans h1.2.2.2.1,
   h2.2.2.2.2.1.trans h1.2.2.2.2.1, h2.2.2.2.2.2.trans h1.2.2.2.2.2⟩
theorem LineSame.emit (a : St) (e : Ev) (he : cls e ≠ .ack) : LineSame a (a.emit e) := by
  simp [LineSame, St.emit, he]

theorem LineSame.bal {a b : St} (h : LineSame a b) : bal b = bal a ∧ owes b = owes a := by
  simp only [Cat.bal, answered, owes, h.1, h.2.1, h.2.2.2.2.2, and_self]

theorem LineSame.lineCpl {a b : St} (h : LineSame a b) (hl : LineCpl a) : LineCpl b :=
  ⟨fun hp => by rw [h.2.2.1]; exact hl.post (by rw [← h.1]; exact hp),
   fun hp => by rw [h.2.2.1, h.2.2.2.1]; exact hl.search (by rw [← h.1]; exact hp),
   fun hp => by rw [h.2.2.2.1]; exact hl.name (by rw [← h.1]; exact hp),
   fun hp => by rw [h.2.2.2.1]; exact hl.rdack (by rw [← h.1]; exact hp)⟩

/-- `withMutex` around a body that respects `LineSame` -/
theorem withMutex_lineSame (D : Desc) (s : St) (lk ul : Int) (body : St → St × Int)
    (hbody : ∀ a, LineSame a (body a).1) : LineSame s (withMutex D s lk ul body).1 := by
  unfold withMutex
  split
  · split
    · exact .emit _ _ (by simp [cls])
    · refine .trans _ _ _ (.emit _ (.lock lk) (by simp [cls])) (.trans _ _ _ (hbody _) ?_)
      simp only
      split <;> exact .emit _ (.unlock ul) (by simp [cls])
  · exact hbody _

theorem apply_nonservice_lineSame (w : World) (op : Op) (h : ∀ i, op ≠ .service i) :
    LineSame { w.s with log := [] } (apply w op).1.s := by
  cases op with
  | service i => exact absurd rfl (h i)
  | isBusy lk ul => exact withMutex_lineSame w.D _ lk ul isBusyBody (fun a => .refl a)
  | isHold lk ul => exact withMutex_lineSame w.D _ lk ul isHoldBody (fun a => .refl a)
  | isFull lk ul =>
    simp only [apply, catIsFull]
    exact withMutex_lineSame w.D _ lk ul (isFullBody w.D) (fun a => .refl a)
  | trigger c t lk ul =>
    simp only [apply, catTrigger]
    exact withMutex_lineSame w.D _ lk ul (fun s => pushUnsolicited w.D s c (cmdTypeOfInt t)) (fun a => by simp [LineSame])
  | holdExit st lk ul =>
    simp only [apply, catHoldExit]
    exact withMutex_lineSame w.D _ lk ul (fun s => holdExit s st) (fun a => by simp [LineSame])
  | buffered c t => exact .refl _
  | setCmdDisable c v => exact .refl _
  | setCmdOnlyTest c v => exact .refl _
  | setGroupDisable g v => exact .refl _
  | poke slot off bs =>
    simp only [apply]
    split <;> exact ⟨rfl, rfl, rfl, rfl, rfl, rfl⟩

/-- the unsolicited machine (whose handlers do not answer HOLD) leaves the line discipline alone -/
theorem unsolicitedEventsService_lineSame (D : Desc) (s : St) (i : SvcIn) (hu : i.hu.ret ≠ 4) :
    LineSame s (unsolicitedEventsService D s i).1 := by
  have k := unsolicitedEventsService_keepsC D s i hu
  have q := unsolicitedEventsService_quiet .ack (by decide) D s i (.of_ne (by decide) (by decide)) (.of_ne (by decide) (by decide))
  simp only [KeepsCH, SameC'] at k
  exact ⟨k.1.2.2.2.2.2.2.2.1, k.1.2.2.2.2.2.2.2.2.2.2.2.1, k.1.2.2.2.2.2.2.1, k.1.2.2.2.2.2.1, k.2.2, q⟩

theorem LineSame.begins_left {a b : St} (h : LineSame a b) (c : St) : begins b c = begins a c := by
  simp only [begins, h.1]
theorem LineSame.begins_right {b c : St} (h : LineSame b c) (a : St) : begins a c = begins a b := by
  simp only [begins, h.1]
theorem LineSame.holdCpl {a b : St} (h : LineSame a b) (hc : HoldCpl a) : HoldCpl b := by
  unfold HoldCpl at *; rw [h.1, h.2.2.2.2.1]; exact hc
theorem begins_self (a b : St) (h : LineSame a b) : begins a b = 0 := by
  simp [begins, h.1]

/-- what one step may do to the line discipline -/
structure LineStep (s s' : St) : Prop where
  cpl : LineCpl s'
  bal : bal s' = bal s + begins s s'

theorem LineStep.of_same {a b : St} (h : LineSame a b) (hl : LineCpl a) : LineStep a b :=
  ⟨h.lineCpl hl, by rw [h.bal.1, begins_self a b h]; rfl⟩

theorem LineStep.same_left {a b c : St} (h : LineSame a b) (st : LineStep b c) : LineStep a c :=
  ⟨st.cpl, by rw [st.bal, h.bal.1, h.begins_left]⟩

theorem LineStep.same_right {a b c : St} (st : LineStep a b) (h : LineSame b c) (hl : LineCpl b) : LineStep a c :=
  ⟨h.lineCpl hl, by rw [h.bal.1, st.bal, h.begins_right]⟩

theorem serviceBody_lineStep (D : Desc) (s : St) (i : SvcIn) (hu : i.hu.ret ≠ 4) (hc : HoldCpl s) (hl : LineCpl s) :
    LineStep s (serviceBody D s i).1 := by
  have u := unsolicitedEventsService_lineSame D s i hu
  unfold serviceBody
  simp only
  exact .same_left u ⟨commandService_lineCpl D _ i (u.lineCpl hl), commandService_bal D _ i (u.holdCpl hc)⟩

theorem service_lineStep (D : Desc) (s : St) (i : SvcIn) (hu : i.hu.ret ≠ 4) (hc : HoldCpl s) (hl : LineCpl s) :
    LineStep s (service D s i).1 := by
  unfold service withMutex
  split
  · split
    · exact .of_same (.emit _ _ (by simp [cls])) hl
    · have e1 : LineSame s (s.emit (.lock i.lock)) := .emit _ _ (by simp [cls])
      have st := serviceBody_lineStep D _ i hu (e1.holdCpl hc) (e1.lineCpl hl)
      have e2 : LineSame (serviceBody D (s.emit (.lock i.lock)) i).1 ((serviceBody D (s.emit (.lock i.lock)) i).1.emit (.unlock i.unlock)) :=
        .emit _ _ (by simp [cls])
      have := LineStep.same_right (LineStep.same_left e1 st) e2 st.cpl
      simp only
      split <;> exact this
  · exact serviceBody_lineStep D s i hu hc hl

/-! ### histories -/

/-- the invariant carried along a history -/
def LineInv (s : St) : Prop := HoldCpl s ∧ LineCpl s

/-- **One API call**: it keeps the invariant, and the result codes it starts plus what is owed
afterwards equal what was owed before plus one if it begins a line. -/
theorem apply_line (w : World) (op : Op) (hop : OpOk op) (h : LineInv w.s) :
    LineInv (apply w op).1.s ∧
    answered (apply w op).1.s + owes (apply w op).1.s = owes w.s + begins w.s (apply w op).1.s := by
  have hc0 : HoldCpl ({ w.s with log := [] } : St) := by simpa [HoldCpl] using h.1
  have hl0 : LineCpl ({ w.s with log := [] } : St) := ⟨h.2.post, h.2.search, h.2.name, h.2.rdack⟩
  have b0 : bal ({ w.s with log := [] } : St) = owes w.s := by simp [bal, answered, owes]
  have st : LineStep ({ w.s with log := [] } : St) (apply w op).1.s := by
    by_cases hs : ∃ i, op = .service i
    · obtain ⟨i, rfl⟩ := hs
      simp only [apply]
      exact service_lineStep w.D _ i hop hc0 hl0
    · exact .of_same (apply_nonservice_lineSame w op (fun i hi => hs ⟨i, hi⟩)) hl0
  refine ⟨⟨apply_holdCpl w op hop h.1, st.cpl⟩, ?_⟩
  have := st.bal
  rw [b0] at this
  simpa [bal, begins] using this

/-- result codes started in the per-call logs of a history -/
def acksIn (outs : List (Int × List Ev)) : Nat :=
  (outs.map (fun o => ((tr .ack o.2).filter isAck).length)).sum

/-- lines begun during a history: calls that take the command machine out of IDLE -/
def linesBegun : World → List Op → Nat
  | _, [] => 0
  | w, op :: r => begins w.s (apply w op).1.s + linesBegun (apply w op).1 r

/-- **Exactly one result code per line, over any history**: the result codes started during the
history, plus the one still owed at its end, equal the lines begun plus the one owed at its start.
As `owes ≤ 1`, lines are answered one at a time, hence in order. -/
theorem runOps_line : ∀ (ops : List Op) (w : World), (∀ op ∈ ops, OpOk op) → LineInv w.s →
    LineInv (runOps w ops).1.s ∧
    acksIn (runOps w ops).2 + owes (runOps w ops).1.s = owes w.s + linesBegun w ops := by
  intro ops
  induction ops with
  | nil => intro w _ h; simp [runOps, acksIn, linesBegun, h]
  | cons op r ih =>
    intro w hok h
    have a := apply_line w op (hok op (by simp)) h
    have b := ih (apply w op).1 (fun o ho => hok o (by simp [ho])) a.1
    simp only [runOps, linesBegun]
    refine ⟨b.1, ?_⟩
    have e : acksIn ((( apply w op).2, (apply w op).1.s.log) :: (runOps (apply w op).1 r).2) =
        answered (apply w op).1.s + acksIn (runOps (apply w op).1 r).2 := by
      simp [acksIn, answered]
    rw [e]
    have a2 := a.2
    have b2 := b.2
    omega

theorem owes_le_one (s : St) : owes s ≤ 1 := by unfold owes; split <;> omega

end Cat
