/-
  No undefined operation by the command machine (C03): the table cursor stays inside the table, a
  command is selected wherever one is dereferenced, the variable cursor stays inside the
  command's variable list, and the print cursor never passes the capacity.  `ub` is the ghost flag
  raised by `St.chkUb` at exactly those places.
-/
import CatVerif.Proofs.NoFault
import CatVerif.Proofs.Line
import CatVerif.Proofs.Args
namespace Cat
open St

/-- states in which the command machine dereferences `self->cmd` (now or after a flush) -/
def NeedsCmd (s : St) : Prop :=
  s.state = .commandFound ∨ s.state = .parseCommandArgs ∨ s.state = .parseWriteArgs ∨ s.state = .formatReadArgs ∨
  s.state = .waitTestAck ∨ s.state = .formatTestArgs ∨ s.state = .writeLoop ∨ s.state = .readLoop ∨
  s.state = .testLoop ∨ s.state = .runLoop ∨ s.state = .afterFlushFormatRead ∨ s.state = .afterFlushFormatTest ∨
  ((s.state = .flushWait ∨ s.state = .flushWrite) ∧ (s.writeStateAfter = .fmtRead ∨ s.writeStateAfter = .fmtTest))

/-- the index discipline of the command machine -/
structure UbInv (D : Desc) (s : St) : Prop where
  idx : (s.state = .updateCommandState ∨ s.state = .searchCommand ∨ s.state = .printCmd ∨
         ((s.state = .flushWait ∨ s.state = .flushWrite) ∧ s.writeStateAfter = .printCmd)) → s.index < D.commandsNum
  name : s.state = .parseCommandChar → s.index = 0
  cmd : NeedsCmd s → s.cmd.isSome
  var : (s.state = .parseWriteArgs ∨ s.state = .formatReadArgs ∨ s.state = .formatTestArgs) → s.index < (D.cmdD s.cmd).varNum
  pos : (s.state = .formatReadArgs ∨ s.state = .formatTestArgs) → s.position ≤ D.cmdCap

theorem varsAccessible_pos (c : CmdD) (a : Access) (h : varsAccessible c a = true) : 0 < c.varNum := by
  unfold varsAccessible at h
  unfold CmdD.varNum
  cases hv : c.vars with
  | none => simp [hv] at h
  | some vs =>
    simp only [hv] at h
    cases vs with
    | nil => simp at h
    | cons x r => simp

/-! ### the print layer keeps the cursor inside and performs no undefined operation -/

/-- `ub` unchanged and the cursor of machine `f` still inside its region -/
def PosUb (D : Desc) (f : Fsm) (s s' : St) : Prop := s'.ub = s.ub ∧ s'.pos f ≤ D.capOf f

theorem PosUb.trans {D : Desc} {f : Fsm} {a b c : St} (h1 : PosUb D f a b) (h2 : PosUb D f b c) : PosUb D f a c :=
  ⟨h2.1.trans h1.1, h2.2⟩

theorem printN_posUb (D : Desc) (s : St) (f : Fsm) (x : List Byte) (hp : s.pos f ≤ D.capOf f) : PosUb D f s (printN D s f x).1 :=
  ⟨(printN_nofault D s f x hp).1.2, (printN_nofault D s f x hp).2⟩
theorem printFmt_posUb (D : Desc) (s : St) (f : Fsm) (x : List Byte) (hp : s.pos f ≤ D.capOf f) : PosUb D f s (printFmt D s f x).1 :=
  ⟨(printFmt_nofault D s f x hp).1.2, (printFmt_nofault D s f x hp).2⟩
theorem printAll_posUb (D : Desc) (s : St) (f : Fsm) (xs : List (List Byte)) (hp : s.pos f ≤ D.capOf f) : PosUb D f s (printAll D s f xs).1 :=
  ⟨(printAll_nofault D f xs s hp).1.2, (printAll_nofault D f xs s hp).2⟩

theorem printHexBytes_posUb (D : Desc) (f : Fsm) (wo : Bool) (bs : List Byte) : ∀ s : St, s.pos f ≤ D.capOf f →
    PosUb D f s (printHexBytes D f wo s bs).1 := by
  induction bs with
  | nil => intro s hp; exact ⟨rfl, hp⟩
  | cons b r ih =>
    intro s hp
    simp only [printHexBytes]
    generalize hexFixed 2 (if wo = true then 0 else b) = txt
    have h1 := printFmt_posUb D s f txt hp
    split
    · exact h1.trans (ih _ h1.2)
    · exact h1

theorem chk_posUb (D : Desc) (f : Fsm) (s : St) (c : Bool) (hp : s.pos f ≤ D.capOf f) : PosUb D f s (s.chk c) := by
  unfold St.chk; split
  · exact ⟨rfl, hp⟩
  · exact ⟨rfl, by cases f <;> simpa [St.pos] using hp⟩

theorem loadUInt_posUb (D : Desc) (f : Fsm) (s : St) (v : VarD) (hp : s.pos f ≤ D.capOf f) : PosUb D f s (loadUInt s v).1 := by
  unfold loadUInt; exact chk_posUb D f s _ hp

theorem formatVar_posUb (D : Desc) (s : St) (f : Fsm) (v : VarD) (hp : s.pos f ≤ D.capOf f) : PosUb D f s (formatVar D s f v).1 := by
  unfold formatVar
  split
  · unfold formatIntDecimal; split
    · exact (loadUInt_posUb D f s v hp).trans (printFmt_posUb D _ f _ (loadUInt_posUb D f s v hp).2)
    · exact ⟨rfl, hp⟩
  · unfold formatUIntDecimal; split
    · exact (loadUInt_posUb D f s v hp).trans (printFmt_posUb D _ f _ (loadUInt_posUb D f s v hp).2)
    · exact ⟨rfl, hp⟩
  · unfold formatNumHexadecimal; split
    · exact (loadUInt_posUb D f s v hp).trans (printFmt_posUb D _ f _ (loadUInt_posUb D f s v hp).2)
    · exact ⟨rfl, hp⟩
  · unfold formatBufferHexadecimal
    exact (chk_posUb D f s _ hp).trans (printHexBytes_posUb D f _ _ _ (chk_posUb D f s _ hp).2)
  · unfold formatBufferString
    exact (chk_posUb D f s _ hp).trans (printAll_posUb D _ f _ (chk_posUb D f s _ hp).2)

theorem formatInfoType_posUb (D : Desc) (s : St) (f : Fsm) (v : VarD) (hp : s.pos f ≤ D.capOf f) : PosUb D f s (formatInfoType D s f v).1 := by
  unfold formatInfoType
  split
  · exact ⟨rfl, hp⟩
  · exact printAll_posUb D s f _ hp

theorem C03_ack_aux (D : Desc) (s : St) : (ackOk D s).ub = s.ub ∧ (ackError D s).ub = s.ub := by
  have h : ∀ str : List Byte, (strncpyC D s str).ub = s.ub := by
    intro str
    unfold strncpyC
    exact (writeB_nofault D .cmd _ s 0 (by
      simp only [List.length_append, List.length_take, List.length_replicate, Desc.capOf]; omega)).2
  constructor
  · have := h [79, 75]; simp_all [ackOk, startFlush, St.emit]
  · have := h [69, 82, 82, 79, 82]; simp_all [ackError, startFlush, St.emit]

/-! ### steps of the command machine -/

/-- `ub` unchanged and the index discipline holds afterwards -/
def UbStep (D : Desc) (s s' : St) : Prop := s'.ub = s.ub ∧ UbInv D s'

/-- a state in which a result code is being started satisfies the discipline trivially -/
theorem UbInv.of_ack {D : Desc} {s : St} (h1 : s.state = .flushWait) (h2 : s.writeStateAfter = .reset) : UbInv D s :=
  ⟨by simp [h1, h2], by simp [h1], by simp [NeedsCmd, h1, h2], by simp [h1], by simp [h1]⟩

theorem ackError_ubStep (D : Desc) (s : St) : UbStep D s (ackError D s) :=
  ⟨by have := (C03_ack_aux D s).2; exact this, .of_ack (by simp) (by simp)⟩
theorem ackOk_ubStep (D : Desc) (s : St) : UbStep D s (ackOk D s) :=
  ⟨by have := (C03_ack_aux D s).1; exact this, .of_ack (by simp) (by simp)⟩

theorem chkUb_true (s : St) : s.chkUb true = s := rfl

theorem startFormatRead_ubStep (D : Desc) (s : St) (hc : s.cmd.isSome = true) : UbStep D s (startFormatRead D s .cmd) := by
  have p0 : (s.setPos .cmd 0).pos .cmd ≤ D.capOf .cmd := by simp [St.setPos, St.pos]
  simp only [startFormatRead, St.cmdOf, setPos_frame, hc, chkUb_true]
  have pa := printAll_posUb D (s.setPos .cmd 0) .cmd [(D.cmdD s.cmd).name, [61]] p0
  have fr := printAll_frame D .cmd [(D.cmdD s.cmd).name, [61]] (s.setPos .cmd 0)
  generalize printAll D (s.setPos .cmd 0) .cmd [(D.cmdD s.cmd).name, [61]] = r at pa fr
  obtain ⟨t, ok⟩ := r
  simp only [PosUb, St.pos, Desc.capOf] at pa
  simp only [SameCtlNP, SameC', setPos_frame] at fr
  have hub : t.ub = s.ub := by rw [pa.1]; simp
  have hcmd : t.cmd = s.cmd := fr.1.1.2.2.2.2.1
  (repeat' split)
  · exact ⟨((ackError_ubStep D t).1).trans hub, (ackError_ubStep D t).2⟩
  · rename_i hva
    refine ⟨hub, ⟨by simp, by simp, fun _ => by simp [hcmd, hc], fun _ => ?_, fun _ => pa.2⟩⟩
    simp only [hcmd]
    exact varsAccessible_pos _ _ hva
  · exact ⟨((ackError_ubStep D t).1).trans hub, (ackError_ubStep D t).2⟩
  · refine ⟨by simp [setStateRL, hub], ⟨by simp [setStateRL], by simp [setStateRL], fun _ => by simp [setStateRL, hcmd, hc], by simp [setStateRL], by simp [setStateRL]⟩⟩

/-- `print_response_test`: on failure nothing but the cursor and buffer changed; on success the
machine is in TEST_LOOP or starts flushing the text (then OK) -/
theorem printResponseTest_ub (D : Desc) (s : St) (hc : s.cmd.isSome = true) (hp : s.position ≤ D.cmdCap) :
    (printResponseTest D s .cmd).1.ub = s.ub ∧ (printResponseTest D s .cmd).1.cmd = s.cmd ∧
    ((printResponseTest D s .cmd).2 = true →
        (printResponseTest D s .cmd).1.state = .testLoop ∨
        ((printResponseTest D s .cmd).1.state = .flushWait ∧ (printResponseTest D s .cmd).1.writeStateAfter = .ok)) := by
  simp only [printResponseTest, St.cmdOf, hc, chkUb_true]
  cases hd : (D.cmdD s.cmd).desc with
  | none =>
    simp only [Bool.not_true, Bool.false_eq_true, if_false]
    split
    · simp [setStateTL]
    · simp [startFlush, St.emit]
  | some d =>
    simp only
    have pa := printAll_posUb D s .cmd [nlStr s, d] (by simpa [St.pos, Desc.capOf] using hp)
    have fr := printAll_frame D .cmd [nlStr s, d] s
    generalize printAll D s .cmd [nlStr s, d] = r at pa fr
    obtain ⟨t, ok⟩ := r
    simp only [PosUb] at pa
    simp only [SameCtlNP, SameC'] at fr
    have hcmd : t.cmd = s.cmd := fr.1.1.2.2.2.2.1
    cases ok
    · simp [pa.1, hcmd]
    · simp only [Bool.not_true, Bool.false_eq_true, if_false]
      split
      · simp [setStateTL, pa.1, hcmd]
      · simp [startFlush, St.emit, pa.1, hcmd]

theorem startFormatTest_ubStep (D : Desc) (s : St) (hc : s.cmd.isSome = true) : UbStep D s (startFormatTest D s .cmd) := by
  have p0 : (s.setPos .cmd 0).pos .cmd ≤ D.capOf .cmd := by simp [St.setPos, St.pos]
  simp only [startFormatTest, St.cmdOf, setPos_frame, hc, chkUb_true]
  have pa := printAll_posUb D (s.setPos .cmd 0) .cmd [(D.cmdD s.cmd).name, [61]] p0
  have fr := printAll_frame D .cmd [(D.cmdD s.cmd).name, [61]] (s.setPos .cmd 0)
  generalize printAll D (s.setPos .cmd 0) .cmd [(D.cmdD s.cmd).name, [61]] = r at pa fr
  obtain ⟨t, ok⟩ := r
  simp only [PosUb, St.pos, Desc.capOf] at pa
  simp only [SameCtlNP, SameC', setPos_frame] at fr
  have hub : t.ub = s.ub := by rw [pa.1]; simp
  have hcmd : t.cmd = s.cmd := fr.1.1.2.2.2.2.1
  (repeat' split)
  · exact ⟨((ackError_ubStep D t).1).trans hub, (ackError_ubStep D t).2⟩
  · rename_i hva
    simp only [Bool.and_eq_true, decide_eq_true_eq] at hva
    exact ⟨hub, ⟨by simp, by simp, fun _ => by simp [hcmd, hc], fun _ => by simp only [hcmd]; exact hva.2, fun _ => pa.2⟩⟩
  · -- no variables: the description (if any) and then the handler or OK
    have pr := printResponseTest_ub D t (by rw [hcmd]; exact hc) pa.2
    rename_i hok
    rcases pr.2.2 hok with h | ⟨h1, h2⟩
    · exact ⟨pr.1.trans hub, ⟨by simp [h], by simp [h], fun _ => by rw [pr.2.1, hcmd]; exact hc, by simp [h], by simp [h]⟩⟩
    · exact ⟨pr.1.trans hub, ⟨by simp [h1, h2], by simp [h1], by simp [NeedsCmd, h1, h2], by simp [h1], by simp [h1]⟩⟩
  · have pr := printResponseTest_ub D t (by rw [hcmd]; exact hc) pa.2
    exact ⟨((ackError_ubStep D _).1).trans (pr.1.trans hub), (ackError_ubStep D _).2⟩

/-- `next_format_var`: either more variables follow (cursor and comma inside the region), or
the line is refused, or (no more variables) nothing but the variable cursor changed -/
theorem nextFormatVar_ub (D : Desc) (s : St) (hp : s.position ≤ D.cmdCap) :
    (nextFormatVar D s .cmd).1.ub = s.ub ∧
    ((nextFormatVar D s .cmd).2 = false →
        (nextFormatVar D s .cmd).1.state = s.state ∧ (nextFormatVar D s .cmd).1.cmd = s.cmd ∧
        (nextFormatVar D s .cmd).1.position = s.position ∧ (nextFormatVar D s .cmd).1.writeStateAfter = s.writeStateAfter) ∧
    ((nextFormatVar D s .cmd).2 = true →
        ((nextFormatVar D s .cmd).1.state = .flushWait ∧ (nextFormatVar D s .cmd).1.writeStateAfter = .reset) ∨
        ((nextFormatVar D s .cmd).1.state = s.state ∧ (nextFormatVar D s .cmd).1.cmd = s.cmd ∧
         (nextFormatVar D s .cmd).1.index = s.index + 1 ∧ s.index + 1 < (D.cmdD s.cmd).varNum ∧
         (nextFormatVar D s .cmd).1.position ≤ D.cmdCap)) := by
  simp only [nextFormatVar, St.cmdOf, St.idx, St.setIdx, St.pos, Desc.capOf]
  by_cases hlt : s.index + 1 < (D.cmdD s.cmd).varNum
  · simp only [hlt, if_true]
    by_cases hpos : s.position ≥ D.cmdCap
    · simp only [hpos, if_true]
      refine ⟨?_, fun h => Bool.noConfusion h, fun _ => Or.inl ⟨by simp [endError], by simp [endError]⟩⟩
      have := (C03_ack_aux D ({ s with index := s.index + 1 } : St)).2
      simpa [endError] using this
    · simp only [hpos, if_false]
      have hpos' : s.position < D.cmdCap := by omega
      have sb := (setB_fault D ({ s with index := s.index + 1 } : St) .cmd s.position 44).1 hpos'
      refine ⟨by simpa [St.setPos] using sb.2, fun h => Bool.noConfusion h, fun _ => Or.inr ?_⟩
      simp [St.setPos, setB, show s.position < D.capOf .cmd from hpos']
      omega
  · simp only [hlt, if_false]
    simp

/-! ### helpers that never touch `ub` -/

@[simp] theorem chk_ub (s : St) (c : Bool) : (s.chk c).ub = s.ub := by unfold St.chk; split <;> rfl
@[simp] theorem emit_ub (s : St) (e : Ev) : (s.emit e).ub = s.ub := rfl
@[simp] theorem readCmdChar_ub (s : St) (i : SvcIn) : (readCmdChar s i).1.ub = s.ub := by
  unfold readCmdChar; split <;> simp [St.emit]
@[simp] theorem setB_ub (D : Desc) (s : St) (f : Fsm) (i : Nat) (v : Byte) : (setB D s f i v).ub = s.ub := by
  unfold setB; cases f <;> simp <;> (repeat' split) <;> (try rfl)
@[simp] theorem writeB_ub (D : Desc) (f : Fsm) (bs : List Byte) : ∀ (s : St) (i : Nat), (writeB D s f i bs).ub = s.ub := by
  induction bs with
  | nil => intro s i; rfl
  | cons b r ih => intro s i; simp only [writeB]; rw [ih]; simp
@[simp] theorem slotWrite_ub (slot : Nat) (bs : List Byte) : ∀ (s : St) (off : Nat), (slotWrite s slot off bs).ub = s.ub := by
  induction bs with
  | nil => intro s off; rfl
  | cons b r ih => intro s off; simp only [slotWrite]; split <;> rw [ih] <;> (try simp [St.emit])
@[simp] theorem pushUnsolicited_ub (D : Desc) (s : St) (c : Nat) (t : CmdType) : (pushUnsolicited D s c t).1.ub = s.ub := by
  unfold pushUnsolicited; split <;> simp
@[simp] theorem holdExit_ub (s : St) (st : Int) : (holdExit s st).1.ub = s.ub := by unfold holdExit; split <;> simp
@[simp] theorem setPos_ub (s : St) (f : Fsm) (n : Nat) : (s.setPos f n).ub = s.ub := by cases f <;> rfl

@[simp] theorem applyNested_ub (D : Desc) (f : Fsm) (e : Bool) (acts : List Nested) : ∀ s : St, (applyNested D f e s acts).ub = s.ub := by
  induction acts with
  | nil => intro s; rfl
  | cons a r ih =>
    intro s
    cases a <;> simp only [applyNested, withMutex] <;> (repeat' split) <;> rw [ih] <;> simp [St.emit]

@[simp] theorem parseVarValue_ub (D : Desc) (s : St) (v : VarD) : (parseVarValue D s v).1.ub = s.ub := by
  have a : ∀ (t : St) val, (storeInt t v val).ub = t.ub := by intro t val; simp [storeInt]
  have b : ∀ (t : St) n m, (validateIntRange t v n m).1.ub = t.ub := by
    intro t n m; unfold validateIntRange; (repeat' split) <;> (try simp [a]) <;> (repeat' split) <;> simp [a]
  have c : ∀ (t : St) m, (validateUIntRange t v m).1.ub = t.ub := by
    intro t m; unfold validateUIntRange; (repeat' split) <;> (try simp [a]) <;> (repeat' split) <;> simp [a]
  unfold parseVarValue
  simp only
  (repeat' split) <;> simp [b, c]
@[simp] theorem varWriteCb_ub (D : Desc) (s : St) (v : VarD) (i : SvcIn) : (varWriteCb D s v i).1.ub = s.ub := by
  unfold varWriteCb; split <;> simp [St.emit]
@[simp] theorem varReadCb_ub (D : Desc) (s : St) (f : Fsm) (v : VarD) (i : SvcIn) : (varReadCb D s f v i).1.ub = s.ub := by
  unfold varReadCb; simp only; split <;> simp [St.emit]

/-! ### one step of the command machine, state by state -/

macro "ubfin" : tactic =>
  `(tactic| ((repeat' split) <;> simp_all [NeedsCmd, ackError, ackOk, startFlush, St.emit, prepareSearchCommand, prepareParseCommand, strncpyC]))

theorem errorState_ubStep (D : Desc) (s : St) (i : SvcIn) (hs : s.state = .error) : UbStep D s (errorState D s i).1 := by
  cases hr : i.rd with
  | none => refine ⟨?_, ⟨?_, ?_, ?_, ?_, ?_⟩⟩ <;> simp [errorState, readCmdChar, hr, St.emit, hs, NeedsCmd]
  | some b => refine ⟨?_, ⟨?_, ?_, ?_, ?_, ?_⟩⟩ <;> simp [errorState, readCmdChar, hr, St.emit, hs] <;> ubfin

theorem processIdleState_ubStep (D : Desc) (s : St) (i : SvcIn) (hs : s.state = .idle) : UbStep D s (processIdleState s i).1 := by
  cases hr : i.rd with
  | none => refine ⟨?_, ⟨?_, ?_, ?_, ?_, ?_⟩⟩ <;> simp [processIdleState, readCmdChar, hr, St.emit, hs, NeedsCmd]
  | some b => refine ⟨?_, ⟨?_, ?_, ?_, ?_, ?_⟩⟩ <;> simp [processIdleState, readCmdChar, hr, St.emit, hs] <;> ubfin

theorem parsePrefix_ubStep (D : Desc) (s : St) (i : SvcIn) (hs : s.state = .parsePrefix) : UbStep D s (parsePrefix D s i).1 := by
  cases hr : i.rd with
  | none => refine ⟨?_, ⟨?_, ?_, ?_, ?_, ?_⟩⟩ <;> simp [parsePrefix, readCmdChar, hr, St.emit, hs, NeedsCmd]
  | some b => refine ⟨?_, ⟨?_, ?_, ?_, ?_, ?_⟩⟩ <;> simp [parsePrefix, readCmdChar, hr, St.emit, hs] <;> ubfin

theorem parseCommand_ubStep (D : Desc) (s : St) (i : SvcIn) (hs : s.state = .parseCommandChar) (hn : 0 < D.commandsNum)
    (h : UbInv D s) : UbStep D s (parseCommand D s i).1 := by
  have h0 := h.name hs
  cases hr : i.rd with
  | none => refine ⟨?_, ⟨?_, ?_, ?_, ?_, ?_⟩⟩ <;> simp [parseCommand, readCmdChar, hr, St.emit, hs, NeedsCmd, h0]
  | some b => refine ⟨?_, ⟨?_, ?_, ?_, ?_, ?_⟩⟩ <;> simp [parseCommand, readCmdChar, hr, St.emit, hs] <;> ubfin

theorem waitReadAcknowledge_ubStep (D : Desc) (s : St) (i : SvcIn) (hs : s.state = .waitReadAck) (hn : 0 < D.commandsNum) :
    UbStep D s (waitReadAcknowledge s i).1 := by
  cases hr : i.rd with
  | none => refine ⟨?_, ⟨?_, ?_, ?_, ?_, ?_⟩⟩ <;> simp [waitReadAcknowledge, readCmdChar, hr, St.emit, hs, NeedsCmd]
  | some b => refine ⟨?_, ⟨?_, ?_, ?_, ?_, ?_⟩⟩ <;> simp [waitReadAcknowledge, readCmdChar, hr, St.emit, hs] <;> ubfin

theorem updateCommand_ubStep (D : Desc) (s : St) (hs : s.state = .updateCommandState) (hn : 0 < D.commandsNum)
    (h : UbInv D s) : UbStep D s (updateCommand D s).1 := by
  have hi := h.idx (Or.inl hs)
  have ⟨a, _, _, d, _⟩ := updateLane_fields D s
  have hub : (updateLane D s).ub = s.ub := by
    unfold updateLane getCmdState setCmdState; simp only; (repeat' split) <;> simp
  simp only [updateCommand, hi, decide_true, chkUb_true, updateAdvance, a, d, prepareSearchCommand]
  refine ⟨?_, ⟨?_, ?_, ?_, ?_, ?_⟩⟩ <;> (repeat' split) <;> simp_all [NeedsCmd] <;> omega

theorem searchCommand_ub (D : Desc) (s : St) (hi : s.index < D.commandsNum) : (searchCommand D s).1.ub = s.ub := by
  simp only [searchCommand, hi, decide_true, chkUb_true, getCmdState]
  (repeat' split) <;> simp [notFoundOrError]

theorem NotFound.ubInv {D : Desc} {s : St} (h : NotFound s) : UbInv D s := by
  rcases h with h | h <;> exact ⟨by simp [h], by simp [h], by simp [NeedsCmd, h], by simp [h], by simp [h]⟩

theorem searchCommand_ubStep (D : Desc) (s : St) (hs : s.state = .searchCommand) (h : UbInv D s) :
    UbStep D s (searchCommand D s).1 := by
  have hi := h.idx (Or.inr (Or.inl hs))
  refine ⟨searchCommand_ub D s hi, ?_⟩
  have ⟨c2, c1a, c1b, c0⟩ := searchCommand_step D s _ _ rfl rfl
  have found : ∀ t : St, t.state = .commandFound → t.cmd.isSome = true → UbInv D t := by
    intro t h1 h2
    exact ⟨by simp [h1], by simp [h1], fun _ => h2, by simp [h1], by simp [h1]⟩
  have same : ∀ t : St, t.state = .searchCommand → t.index = s.index + 1 → s.index + 1 < D.commandsNum → UbInv D t := by
    intro t h1 h2 h3
    exact ⟨fun _ => by rw [h2]; exact h3, by simp [h1], by simp [NeedsCmd, h1], by simp [h1], by simp [h1]⟩
  by_cases h2 : laneOf D s s.index = 2
  · have ⟨x1, x2⟩ := c2 h2
    exact found _ x1 (by rw [x2]; rfl)
  · by_cases h1 : laneOf D s s.index = 1
    · by_cases hl : s.cmd.isSome = true ∧ s.index + 1 = D.commandsNum
      · exact (c1a h1 hl.1 hl.2).ubInv
      · have ⟨x1, x2, x3, x4, x5⟩ := c1b h1 hl
        by_cases hlt : s.index + 1 < D.commandsNum
        · exact same _ (by rw [x4 hlt, hs]) x3 hlt
        · by_cases hc : s.partialCntr = 0
          · exact found _ ((x5 (by omega)).1 hc) (by rw [x1]; rfl)
          · exact ((x5 (by omega)).2 hc).ubInv
    · have ⟨x1, x2, x3, x4, x5⟩ := c0 h1 h2
      by_cases hlt : s.index + 1 < D.commandsNum
      · exact same _ (by rw [x4 hlt, hs]) x3 hlt
      · by_cases hc : s.cmd.isSome = true ∧ s.partialCntr = 1
        · exact found _ ((x5 (by omega)).1 hc.1 hc.2) (by rw [x1]; exact hc.1)
        · exact ((x5 (by omega)).2 hc).ubInv

theorem commandFound_ubStep (D : Desc) (s : St) (hs : s.state = .commandFound) (h : UbInv D s) :
    UbStep D s (commandFound D s).1 := by
  have hc := h.cmd (by simp [NeedsCmd, hs])
  simp only [commandFound, hc, chkUb_true]
  split
  · (repeat' split)
    · exact ackError_ubStep D s
    · exact ackError_ubStep D s
    · exact ⟨rfl, ⟨by simp, by simp, fun _ => hc, by simp, by simp⟩⟩
  · split
    · exact ackError_ubStep D s
    · exact startFormatRead_ubStep D s hc
  · exact ⟨by simp, ⟨by simp, by simp, fun _ => by simp [setB]; split <;> simpa using hc, by simp, by simp⟩⟩
  · exact ackError_ubStep D s

theorem commandNotFound_ubStep (D : Desc) (s : St) : UbStep D s (commandNotFound D s).1 := ackError_ubStep D s

theorem parseCommandArgs_ubStep (D : Desc) (s : St) (i : SvcIn) (hs : s.state = .parseCommandArgs) (h : UbInv D s) :
    UbStep D s (parseCommandArgs D s i).1 := by
  have hc := h.cmd (by simp [NeedsCmd, hs])
  cases hr : i.rd with
  | none => refine ⟨?_, ⟨?_, ?_, ?_, ?_, ?_⟩⟩ <;> simp [parseCommandArgs, readCmdChar, hr, St.emit, hs, NeedsCmd, hc]
  | some b =>
    have hwo : varsAccessible (D.cmdD s.cmd) .wo = true → 0 < (D.cmdD s.cmd).varNum := varsAccessible_pos _ _
    refine ⟨?_, ⟨?_, ?_, ?_, ?_, ?_⟩⟩ <;> simp [parseCommandArgs, readCmdChar, hr, St.emit, hs, hc, chkUb_true] <;>
      (repeat' split) <;> simp_all [NeedsCmd, ackError, ackOk, startFlush, St.emit, strncpyC, setB] <;> (repeat' split) <;> simp_all

theorem parseWriteArgs_ubStep (D : Desc) (s : St) (i : SvcIn) (hs : s.state = .parseWriteArgs) (h : UbInv D s) :
    UbStep D s (parseWriteArgs D s i).1 := by
  have hc := h.cmd (by simp [NeedsCmd, hs])
  have hv := h.var (Or.inl hs)
  simp only [parseWriteArgs, hc, chkUb_true, chkUb_ctl, hv, decide_true]
  generalize (D.cmdD s.cmd).varAt s.index = v
  have p := parseVarValue_buf D s v
  have pu := parseVarValue_ub D s v
  have ps : (parseVarValue D s v).1.state = s.state := by
    have := parseVarValue_U D s v; unfold parseVarValue; simp only; (repeat' split) <;> simp_all
  generalize parseVarValue D s v = r at p pu ps
  obtain ⟨s1, stat, ok⟩ := r
  simp only at p pu ps
  cases ok
  · exact ⟨((ackError_ubStep D s1).1).trans pu, (ackError_ubStep D s1).2⟩
  · simp only [Bool.not_true, Bool.false_eq_true, if_false]
    have q := varWriteCb_buf D s1 v i
    have qu := varWriteCb_ub D s1 v i
    have qs : (varWriteCb D s1 v i).1.state = s1.state := by
      unfold varWriteCb; split
      · have := (applyNested_frame D .cmd false i.vc.acts (s1.emit (.varcb .cmd (s1.cmd.getD 0) s1.index true s1.writeSize i.vc.ret)))
        simp_all
      · rfl
    generalize varWriteCb D s1 v i = r2 at q qu qs
    obtain ⟨s2, fail⟩ := r2
    simp only at q qu qs
    have hub : s2.ub = s.ub := qu.trans pu
    have hcmd : s2.cmd = s.cmd := by rw [q.2.2.1, p.2.2.1]
    have hidx : s2.index = s.index := by rw [q.2.2.2, p.2.2.2]
    have hst : s2.state = .parseWriteArgs := by rw [qs, ps, hs]
    cases fail
    · simp only [Bool.false_eq_true, if_false]
      (repeat' split)
      · rename_i hm
        simp only [Bool.and_eq_true, decide_eq_true_eq] at hm
        exact ⟨hub, ⟨by simp [hst], by simp [hst], fun _ => by simp [hcmd, hc], fun _ => by simpa [hcmd, hidx] using hm.1, by simp [hst]⟩⟩
      · exact ⟨((ackError_ubStep D _).1).trans (by simpa using hub), (ackError_ubStep D _).2⟩
      · exact ⟨((ackError_ubStep D _).1).trans (by simpa using hub), (ackError_ubStep D _).2⟩
      · exact ⟨((ackOk_ubStep D _).1).trans (by simpa using hub), (ackOk_ubStep D _).2⟩
      · exact ⟨by simpa using hub, ⟨by simp, by simp, fun _ => by simp [hcmd, hc], by simp, by simp⟩⟩
    · exact ⟨((ackError_ubStep D s2).1).trans hub, (ackError_ubStep D s2).2⟩

theorem applyNested_noedit_pos (D : Desc) (f : Fsm) (acts : List Nested) : ∀ s : St,
    (applyNested D f false s acts).position = s.position ∧ (applyNested D f false s acts).uposition = s.uposition := by
  induction acts with
  | nil => intro s; simp [applyNested]
  | cons a r ih =>
    intro s
    cases a <;> simp only [applyNested, withMutex] <;> (repeat' split) <;> simp_all

/-- the variable read callback leaves the command machine's bookkeeping alone -/
theorem varReadCb_cmd_keep (D : Desc) (s : St) (v : VarD) (i : SvcIn) :
    (varReadCb D s .cmd v i).1.state = s.state ∧ (varReadCb D s .cmd v i).1.cmd = s.cmd ∧
    (varReadCb D s .cmd v i).1.index = s.index ∧ (varReadCb D s .cmd v i).1.position = s.position ∧
    (varReadCb D s .cmd v i).1.writeStateAfter = s.writeStateAfter := by
  simp only [varReadCb]; split
  · have a := applyNested_frame D .cmd false i.vc.acts (s.emit (.varcb .cmd ((s.cmdOf .cmd).getD 0) (s.idx .cmd) false 0 i.vc.ret))
    have c := (applyNested_noedit_pos D .cmd i.vc.acts (s.emit (.varcb .cmd ((s.cmdOf .cmd).getD 0) (s.idx .cmd) false 0 i.vc.ret))).1
    simp_all
  · simp

theorem formatVar_cmd_keep (D : Desc) (s : St) (v : VarD) :
    (formatVar D s .cmd v).1.state = s.state ∧ (formatVar D s .cmd v).1.cmd = s.cmd ∧
    (formatVar D s .cmd v).1.index = s.index ∧ (formatVar D s .cmd v).1.writeStateAfter = s.writeStateAfter := by
  refine ⟨(formatVar_state D s .cmd v).1, ?_, ?_, ?_⟩ <;> (unfold formatVar; crunch)

theorem formatReadArgs_ubStep (D : Desc) (s : St) (i : SvcIn) (hs : s.state = .formatReadArgs) (h : UbInv D s) :
    UbStep D s (formatReadArgs D s .cmd i).1 := by
  have hc := h.cmd (by simp [NeedsCmd, hs])
  have hv := h.var (Or.inr (Or.inl hs))
  have hp := h.pos (Or.inl hs)
  simp only [formatReadArgs, St.cmdOf, St.idx, hc, chkUb_true, chkUb_ctl, hv, decide_true]
  generalize (D.cmdD s.cmd).varAt s.index = v
  have k1 := varReadCb_cmd_keep D s v i
  have u1 := varReadCb_ub D s .cmd v i
  generalize varReadCb D s .cmd v i = r1 at k1 u1
  obtain ⟨s1, fail⟩ := r1
  simp only at k1 u1
  cases fail
  · simp only [Bool.false_eq_true, if_false]
    have hp1 : s1.pos .cmd ≤ D.capOf .cmd := by simpa [St.pos, Desc.capOf, k1.2.2.2.1] using hp
    have k2 := formatVar_cmd_keep D s1 v
    have u2 := formatVar_posUb D s1 .cmd v hp1
    generalize formatVar D s1 .cmd v = r2 at k2 u2
    obtain ⟨s2, ok⟩ := r2
    simp only [PosUb, St.pos, Desc.capOf] at k2 u2
    have hub2 : s2.ub = s.ub := u2.1.trans u1
    cases ok
    · exact ⟨((ackError_ubStep D s2).1).trans hub2, (ackError_ubStep D s2).2⟩
    · simp only [Bool.not_true, Bool.false_eq_true, if_false]
      have n := nextFormatVar_ub D s2 u2.2
      generalize nextFormatVar D s2 .cmd = r3 at n
      obtain ⟨s3, more⟩ := r3
      simp only at n
      have hst2 : s2.state = .formatReadArgs := by rw [k2.1, k1.1, hs]
      have hcmd2 : s2.cmd = s.cmd := by rw [k2.2.1, k1.2.1]
      have hidx2 : s2.index = s.index := by rw [k2.2.2.1, k1.2.2.1]
      cases more
      · simp only [Bool.false_eq_true, if_false]
        have m := n.2.1 rfl
        split
        · exact ⟨by simpa [setStateRL] using n.1.trans hub2,
            ⟨by simp [setStateRL], by simp [setStateRL], fun _ => by simp [setStateRL, m.2.1, hcmd2, hc], by simp [setStateRL], by simp [setStateRL]⟩⟩
        · exact ⟨by simpa [startFlush, St.emit] using n.1.trans hub2,
            ⟨by simp [startFlush, St.emit], by simp [startFlush, St.emit], by simp [NeedsCmd, startFlush, St.emit],
             by simp [startFlush, St.emit], by simp [startFlush, St.emit]⟩⟩
      · simp only [if_true]
        rcases n.2.2 rfl with ⟨a1, a2⟩ | ⟨b1, b2, b3, b4, b5⟩
        · exact ⟨n.1.trans hub2, .of_ack a1 a2⟩
        · exact ⟨n.1.trans hub2, ⟨by simp [b1, hst2], by simp [b1, hst2], fun _ => by rw [b2, hcmd2]; exact hc,
            fun _ => by rw [b3, b2, hcmd2, hidx2]; rw [hcmd2, hidx2] at b4; exact b4, fun _ => b5⟩⟩
  · exact ⟨((ackError_ubStep D s1).1).trans u1, (ackError_ubStep D s1).2⟩

theorem waitTestAcknowledge_ubStep (D : Desc) (s : St) (i : SvcIn) (hs : s.state = .waitTestAck) (h : UbInv D s) :
    UbStep D s (waitTestAcknowledge D s i).1 := by
  have hc := h.cmd (by simp [NeedsCmd, hs])
  cases hr : i.rd with
  | none => refine ⟨?_, ⟨?_, ?_, ?_, ?_, ?_⟩⟩ <;> simp [waitTestAcknowledge, readCmdChar, hr, St.emit, hs, NeedsCmd, hc]
  | some b =>
    by_cases h10 : toUpper b = 10
    · have e : (waitTestAcknowledge D s i).1 = startFormatTest D ({ s.emit (.rd (some b)) with currentChar := toUpper b }) .cmd := by
        simp [waitTestAcknowledge, readCmdChar, hr, St.emit, hs, h10]
      rw [e]
      have := startFormatTest_ubStep D ({ s.emit (.rd (some b)) with currentChar := toUpper b }) (by simpa [St.emit] using hc)
      exact ⟨this.1.trans (by simp [St.emit]), this.2⟩
    · refine ⟨?_, ⟨?_, ?_, ?_, ?_, ?_⟩⟩ <;> simp [waitTestAcknowledge, readCmdChar, hr, St.emit, hs, h10] <;> ubfin

theorem formatInfoType_cmd_keep (D : Desc) (s : St) (v : VarD) :
    (formatInfoType D s .cmd v).1.state = s.state ∧ (formatInfoType D s .cmd v).1.cmd = s.cmd ∧
    (formatInfoType D s .cmd v).1.index = s.index ∧ (formatInfoType D s .cmd v).1.writeStateAfter = s.writeStateAfter := by
  refine ⟨?_, ?_, ?_, ?_⟩ <;> (unfold formatInfoType; crunch)

theorem formatTestArgs_ubStep (D : Desc) (s : St) (hs : s.state = .formatTestArgs) (h : UbInv D s) :
    UbStep D s (formatTestArgs D s .cmd).1 := by
  have hc := h.cmd (by simp [NeedsCmd, hs])
  have hv := h.var (Or.inr (Or.inr hs))
  have hp := h.pos (Or.inr hs)
  simp only [formatTestArgs, St.cmdOf, St.idx, hc, chkUb_true, chkUb_ctl, hv, decide_true]
  generalize (D.cmdD s.cmd).varAt s.index = v
  have hp0 : s.pos .cmd ≤ D.capOf .cmd := by simpa [St.pos, Desc.capOf] using hp
  have k2 := formatInfoType_cmd_keep D s v
  have u2 := formatInfoType_posUb D s .cmd v hp0
  generalize formatInfoType D s .cmd v = r2 at k2 u2
  obtain ⟨s2, ok⟩ := r2
  simp only [PosUb, St.pos, Desc.capOf] at k2 u2
  cases ok
  · exact ⟨((ackError_ubStep D s2).1).trans u2.1, (ackError_ubStep D s2).2⟩
  · simp only [Bool.not_true, Bool.false_eq_true, if_false]
    have n := nextFormatVar_ub D s2 u2.2
    generalize nextFormatVar D s2 .cmd = r3 at n
    obtain ⟨s3, more⟩ := r3
    simp only at n
    have hst2 : s2.state = .formatTestArgs := by rw [k2.1, hs]
    cases more
    · simp only [Bool.false_eq_true, if_false]
      have m := n.2.1 rfl
      have hc3 : s3.cmd.isSome = true := by rw [m.2.1, k2.2.1]; exact hc
      have pr := printResponseTest_ub D s3 hc3 (by rw [m.2.2.1]; exact u2.2)
      have hub3 : (printResponseTest D s3 .cmd).1.ub = s.ub := pr.1.trans (n.1.trans u2.1)
      split
      · rename_i hok
        rcases pr.2.2 hok with g | ⟨g1, g2⟩
        · exact ⟨hub3, ⟨by simp [g], by simp [g], fun _ => by rw [pr.2.1]; exact hc3, by simp [g], by simp [g]⟩⟩
        · exact ⟨hub3, ⟨by simp [g1, g2], by simp [g1], by simp [NeedsCmd, g1, g2], by simp [g1], by simp [g1]⟩⟩
      · exact ⟨((ackError_ubStep D _).1).trans hub3, (ackError_ubStep D _).2⟩
    · simp only [if_true]
      rcases n.2.2 rfl with ⟨a1, a2⟩ | ⟨b1, b2, b3, b4, b5⟩
      · exact ⟨n.1.trans u2.1, .of_ack a1 a2⟩
      · exact ⟨n.1.trans u2.1, ⟨by simp [b1, hst2], by simp [b1, hst2], fun _ => by rw [b2, k2.2.1]; exact hc,
          fun _ => by rw [b3, b2, k2.2.1, k2.2.2.1]; rw [k2.2.1, k2.2.2.1] at b4; exact b4, fun _ => b5⟩⟩

/-! ### handler loops -/

/-- a handler has just returned: a command is selected and the machine is in one of the loops -/
def InLoop (t : St) : Prop :=
  t.cmd.isSome = true ∧ (t.state = .writeLoop ∨ t.state = .readLoop ∨ t.state = .testLoop ∨ t.state = .runLoop)

theorem InLoop.ubInv {D : Desc} {t : St} (h : InLoop t) : UbInv D t := by
  obtain ⟨hc, hs⟩ := h
  rcases hs with hs | hs | hs | hs <;> exact ⟨by simp [hs], by simp [hs], fun _ => hc, by simp [hs], by simp [hs]⟩

theorem doCall_ubStep (D : Desc) (t : St) (c : Call) (h : InLoop t) (hn : 0 < D.commandsNum)
    (hc : c ≠ .startFlush .reset ∧ c ≠ .startFlush .printCmd ∧ ∀ ok, c ≠ .holdExit ok) : UbStep D t (doCall D .cmd t c) := by
  cases c with
  | ackOk => exact ackOk_ubStep D t
  | ackError => exact ackError_ubStep D t
  | enableHold => exact ⟨rfl, ⟨by simp [doCall, enableHoldState], by simp [doCall, enableHoldState], by simp [doCall, enableHoldState, NeedsCmd],
      by simp [doCall, enableHoldState], by simp [doCall, enableHoldState]⟩⟩
  | startPrintCmdList =>
    simp only [doCall, startPrintCmdList]
    split
    · exact ackOk_ubStep D t
    · exact ⟨rfl, ⟨fun _ => hn, by simp, by simp [NeedsCmd], by simp, by simp⟩⟩
  | endOk => exact ackOk_ubStep D t
  | endError => exact ackError_ubStep D t
  | startFlush a =>
    cases a with
    | reset => exact absurd rfl hc.1
    | printCmd => exact absurd rfl hc.2.1
    | ok => exact ⟨by simp [doCall, startFlush, St.emit], ⟨by simp [doCall, startFlush, St.emit], by simp [doCall, startFlush, St.emit],
        by simp [doCall, startFlush, St.emit, NeedsCmd], by simp [doCall, startFlush, St.emit], by simp [doCall, startFlush, St.emit]⟩⟩
    | fmtRead => exact ⟨by simp [doCall, startFlush, St.emit], ⟨by simp [doCall, startFlush, St.emit], by simp [doCall, startFlush, St.emit],
        fun _ => by simpa [doCall, startFlush, St.emit] using h.1, by simp [doCall, startFlush, St.emit], by simp [doCall, startFlush, St.emit]⟩⟩
    | fmtTest => exact ⟨by simp [doCall, startFlush, St.emit], ⟨by simp [doCall, startFlush, St.emit], by simp [doCall, startFlush, St.emit],
        fun _ => by simpa [doCall, startFlush, St.emit] using h.1, by simp [doCall, startFlush, St.emit], by simp [doCall, startFlush, St.emit]⟩⟩
  | startFormatRead => exact startFormatRead_ubStep D t h.1
  | startFormatTest => exact startFormatTest_ubStep D t h.1
  | holdExit ok => exact absurd rfl (hc.2.2 ok)

/-- the calls of one table arm, from a loop state -/
structure ArmUb (D : Desc) (t : St) (l : List Call) : Prop where
  step : UbStep D t (doCalls D .cmd t l)

theorem tables_ub (D : Desc) (t : St) (ret : Int) (h : InLoop t) (hn : 0 < D.commandsNum) :
    ArmUb D t (Gen.process_write_loop ret) ∧ ArmUb D t (Gen.process_run_loop ret) ∧
    ArmUb D t (Gen.process_read_loop ret .cmd) ∧ ArmUb D t (Gen.process_test_loop ret .cmd) := by
  have hx : ∀ ok, InLoop (doCall D .cmd t (.holdExit ok)) ∧ (doCall D .cmd t (.holdExit ok)).ub = t.ub := by
    intro ok
    have e : (doCall D .cmd t (.holdExit ok)).cmd = t.cmd ∧ (doCall D .cmd t (.holdExit ok)).state = t.state := by
      simp [doCall, holdExit]; split <;> simp
    exact ⟨⟨by rw [e.1]; exact h.1, by rw [e.2]; exact h.2⟩, by simp [doCall]⟩
  have h0 : ArmUb D t [] := ⟨⟨rfl, h.ubInv⟩⟩
  have h1 : ∀ c, (c ≠ .startFlush .reset ∧ c ≠ .startFlush .printCmd ∧ ∀ ok, c ≠ .holdExit ok) → ArmUb D t [c] := by
    intro c hc; exact ⟨by simp only [doCalls]; exact doCall_ubStep D t c h hn hc⟩
  have h2 : ∀ ok c, (c ≠ .startFlush .reset ∧ c ≠ .startFlush .printCmd ∧ ∀ ok, c ≠ .holdExit ok) → ArmUb D t [.holdExit ok, c] := by
    intro ok c hc
    refine ⟨?_⟩
    simp only [doCalls]
    have := doCall_ubStep D _ c (hx ok).1 hn hc
    exact ⟨this.1.trans (hx ok).2, this.2⟩
  refine ⟨?_, ?_, ?_, ?_⟩
  · unfold Gen.process_write_loop
    (repeat' split) <;> first | exact h0 | exact h2 _ _ (by decide) | exact h1 _ (by decide)
  · unfold Gen.process_run_loop
    (repeat' split) <;> first | exact h0 | exact h2 _ _ (by decide) | exact h1 _ (by decide)
  · unfold Gen.process_read_loop
    (repeat' split) <;> first | exact h0 | exact h2 _ _ (by decide) | exact h1 _ (by decide)
  · unfold Gen.process_test_loop
    (repeat' split) <;> first | exact h0 | exact h2 _ _ (by decide) | exact h1 _ (by decide)

theorem loops_ubStep (D : Desc) (s : St) (i : SvcIn) (hn : 0 < D.commandsNum) (h : UbInv D s) :
    (s.state = .writeLoop → UbStep D s (processWriteLoop D s i).1) ∧
    (s.state = .runLoop → UbStep D s (processRunLoop D s i).1) ∧
    (s.state = .readLoop → UbStep D s (processReadLoop D s .cmd i).1) ∧
    (s.state = .testLoop → UbStep D s (processTestLoop D s .cmd i).1) := by
  have key : ∀ (e : Bool) (ev : Ev), s.cmd.isSome = true →
      (s.state = .writeLoop ∨ s.state = .readLoop ∨ s.state = .testLoop ∨ s.state = .runLoop) →
      InLoop (applyNested D .cmd e (s.emit ev) i.hc.acts) ∧ (applyNested D .cmd e (s.emit ev) i.hc.acts).ub = s.ub := by
    intro e ev hc hst
    have a := applyNested_frame D .cmd e i.hc.acts (s.emit ev)
    simp only [SameC'] at a
    have a1 : (applyNested D .cmd e (s.emit ev) i.hc.acts).cmd = s.cmd := a.1.2.2.2.2.1
    have a2 : (applyNested D .cmd e (s.emit ev) i.hc.acts).state = s.state := a.1.2.2.2.2.2.2.2.1
    exact ⟨⟨by rw [a1]; exact hc, by rw [a2]; exact hst⟩, by simp⟩
  refine ⟨?_, ?_, ?_, ?_⟩ <;> intro hs
  · have hc := h.cmd (by simp [NeedsCmd, hs])
    simp only [processWriteLoop, hc, chkUb_true]
    have k := key false (.handler .cmd .write (s.cmd.getD 0) ((region D s .cmd 0).take s.length) (getB D s .cmd s.length == 0 && decide (s.length < D.cmdCap)) s.length s.index i.hc.ret) hc (Or.inl hs)
    have t := (tables_ub D _ i.hc.ret k.1 hn).1.step
    exact ⟨t.1.trans k.2, t.2⟩
  · have hc := h.cmd (by simp [NeedsCmd, hs])
    simp only [processRunLoop, hc, chkUb_true]
    have k := key false (.handler .cmd .run (s.cmd.getD 0) [] true 0 0 i.hc.ret) hc (Or.inr (Or.inr (Or.inr hs)))
    have t := (tables_ub D _ i.hc.ret k.1 hn).2.1.step
    exact ⟨t.1.trans k.2, t.2⟩
  · have hc := h.cmd (by simp [NeedsCmd, hs])
    simp only [processReadLoop, St.cmdOf, hc, chkUb_true]
    have k := key true (.handler .cmd .read (s.cmd.getD 0) (cstr D s .cmd).1 (cstr D s .cmd).2 (s.pos .cmd) (D.capOf .cmd) i.hc.ret) hc (Or.inr (Or.inl hs))
    have t := (tables_ub D _ i.hc.ret k.1 hn).2.2.1.step
    exact ⟨t.1.trans k.2, t.2⟩
  · have hc := h.cmd (by simp [NeedsCmd, hs])
    simp only [processTestLoop, St.cmdOf, hc, chkUb_true]
    have k := key true (.handler .cmd .test (s.cmd.getD 0) (cstr D s .cmd).1 (cstr D s .cmd).2 (s.pos .cmd) (D.capOf .cmd) i.hc.ret) hc (Or.inr (Or.inr (Or.inl hs)))
    have t := (tables_ub D _ i.hc.ret k.1 hn).2.2.2.step
    exact ⟨t.1.trans k.2, t.2⟩

theorem processHoldState_ubStep (D : Desc) (s : St) (hs : s.state = .hold) : UbStep D s (processHoldState D s).1 := by
  simp only [processHoldState]
  (repeat' split)
  · exact ⟨rfl, ⟨by simp [hs], by simp [hs], by simp [NeedsCmd, hs], by simp [hs], by simp [hs]⟩⟩
  · exact ⟨(ackError_ubStep D _).1, (ackError_ubStep D _).2⟩
  · exact ⟨(ackOk_ubStep D _).1, (ackOk_ubStep D _).2⟩

theorem processIoWriteWait_ubStep (D : Desc) (s : St) (hs : s.state = .flushWait) (h : UbInv D s) :
    UbStep D s (processIoWriteWait s).1 := by
  simp only [processIoWriteWait]
  split
  · refine ⟨rfl, ⟨fun hi => h.idx ?_, by simp, fun hn => h.cmd ?_, by simp, by simp⟩⟩
    · simp only [hs] at hi ⊢; simp at hi ⊢; exact hi
    · simp only [NeedsCmd, hs] at hn ⊢; simp at hn ⊢; exact hn
  · exact ⟨rfl, h⟩

theorem processIoWrite_ubStep (D : Desc) (s : St) (i : SvcIn) (hs : s.state = .flushWrite) (h : UbInv D s) :
    UbStep D s (processIoWrite D s i).1 := by
  simp only [processIoWrite]
  generalize writeByte D s .cmd = wb
  obtain ⟨ch, inb⟩ := wb
  have keep : ∀ t : St, t.state = s.state → t.writeStateAfter = s.writeStateAfter → t.index = s.index → t.cmd = s.cmd → UbInv D t := by
    intro t h1 h2 h3 h4
    exact ⟨fun hh => by rw [h3]; exact h.idx (by rw [← h1, ← h2]; exact hh), by simp [h1, hs],
      fun hh => by rw [h4]; exact h.cmd (by simp only [NeedsCmd] at hh ⊢; rw [← h1, ← h2]; exact hh), by simp [h1, hs], by simp [h1, hs]⟩
  simp only
  (repeat' split)
  · exact ⟨by simp, keep _ (by simp) (by simp) (by simp) (by simp)⟩
  · exact ⟨by simp, keep _ (by simp) (by simp) (by simp) (by simp)⟩
  · -- the unit is complete: continue with the state recorded at its start
    refine ⟨by simp [St.emit], ?_⟩
    cases ha : s.writeStateAfter with
    | reset => exact ⟨by simp [St.emit, ha, After.toC], by simp [St.emit, ha, After.toC], by simp [St.emit, ha, After.toC, NeedsCmd],
        by simp [St.emit, ha, After.toC], by simp [St.emit, ha, After.toC]⟩
    | ok => exact ⟨by simp [St.emit, ha, After.toC], by simp [St.emit, ha, After.toC], by simp [St.emit, ha, After.toC, NeedsCmd],
        by simp [St.emit, ha, After.toC], by simp [St.emit, ha, After.toC]⟩
    | fmtRead => exact ⟨by simp [St.emit, ha, After.toC], by simp [St.emit, ha, After.toC],
        fun _ => by simpa [St.emit] using h.cmd (by simp [NeedsCmd, hs, ha]), by simp [St.emit, ha, After.toC], by simp [St.emit, ha, After.toC]⟩
    | fmtTest => exact ⟨by simp [St.emit, ha, After.toC], by simp [St.emit, ha, After.toC],
        fun _ => by simpa [St.emit] using h.cmd (by simp [NeedsCmd, hs, ha]), by simp [St.emit, ha, After.toC], by simp [St.emit, ha, After.toC]⟩
    | printCmd => exact ⟨fun _ => by simpa [St.emit] using h.idx (by simp [hs, ha]), by simp [St.emit, ha, After.toC],
        by simp [St.emit, ha, After.toC, NeedsCmd], by simp [St.emit, ha, After.toC], by simp [St.emit, ha, After.toC]⟩
  · exact ⟨by simp, keep _ (by simp) (by simp) (by simp) (by simp)⟩
  · exact ⟨by simp [St.emit], keep _ (by simp [St.emit]) (by simp [St.emit]) (by simp [St.emit]) (by simp [St.emit])⟩
  · exact ⟨by simp [St.emit], keep _ (by simp [St.emit]) (by simp [St.emit]) (by simp [St.emit]) (by simp [St.emit])⟩

theorem printCmdForm_ubStep (D : Desc) (t : St) (avail : Bool) (x : List Byte) (next : CmdType)
    (ht : t.state = .printCmd) (hi : t.index < D.commandsNum) : UbStep D t (printCmdForm D t avail x next) := by
  have base : ∀ u : St, u.state = .printCmd → u.index = t.index → UbInv D u := by
    intro u h1 h2
    exact ⟨fun _ => by rw [h2]; exact hi, by simp [h1], by simp [NeedsCmd, h1], by simp [h1], by simp [h1]⟩
  simp only [printCmdForm]
  split
  · -- printed: the name is built from position 0
    have p0 : ({ t with position := 0 } : St).pos .cmd ≤ D.capOf .cmd := by simp [St.pos]
    have hu : (printCurrentCmdFullName D { t with position := 0 } x).1.ub = t.ub ∧
        (printCurrentCmdFullName D { t with position := 0 } x).1.index = t.index := by
      constructor
      · simp only [printCurrentCmdFullName]
        split
        · have a := printN_posUb D { t with position := 0 } .cmd (nlStr { t with position := 0 }) p0
          generalize printN D { t with position := 0 } .cmd (nlStr { t with position := 0 }) = r at a
          obtain ⟨u, ok⟩ := r
          simp only [PosUb] at a
          cases ok
          · simpa using a.1
          · simp only [Bool.not_true, Bool.false_eq_true, if_false, if_true]
            have b := printAll_posUb D { u with length := 1 } .cmd [[65, 84], (D.cmdD t.cmd).name, x, nlStr { u with length := 1 }]
              (by simpa [St.pos] using a.2)
            simp only [PosUb] at b
            exact b.1.trans (by simpa using a.1)
        · have b := printAll_posUb D { t with position := 0 } .cmd [[65, 84], (D.cmdD t.cmd).name, x, nlStr { t with position := 0 }] p0
          simp only [PosUb] at b
          simpa using b.1
      · have := printCurrentCmdFullName_U D { t with position := 0 } x
        simp [printCurrentCmdFullName]; crunch
    generalize printCurrentCmdFullName D { t with position := 0 } x = r at hu
    obtain ⟨u, ok⟩ := r
    simp only at hu
    cases ok
    · exact ⟨((ackError_ubStep D u).1).trans hu.1, (ackError_ubStep D u).2⟩
    · simp only [Bool.not_true, Bool.false_eq_true, if_false]
      exact ⟨by simpa [startFlushRaw, St.emit] using hu.1,
        ⟨fun _ => by simpa [startFlushRaw, St.emit, hu.2] using hi, by simp [startFlushRaw, St.emit],
         by simp [NeedsCmd, startFlushRaw, St.emit], by simp [startFlushRaw, St.emit], by simp [startFlushRaw, St.emit]⟩⟩
  · exact ⟨rfl, base _ (by simpa using ht) rfl⟩

theorem printCmdList_ubStep (D : Desc) (s : St) (hs : s.state = .printCmd) (h : UbInv D s) :
    UbStep D s (printCmdList D s) := by
  have hi := h.idx (Or.inr (Or.inr (Or.inl hs)))
  simp only [printCmdList, hi, decide_true, chkUb_true]
  have next : ∀ t : St, t.state = .printCmd → t.index = s.index → t.ub = s.ub →
      UbStep D s (if (cmdListNextCmd D t).2 = true then (cmdListNextCmd D t).1 else ackOk D (cmdListNextCmd D t).1) := by
    intro t h1 h2 h3
    simp only [cmdListNextCmd]
    by_cases hge : t.index + 1 ≥ D.commandsNum
    · simp only [if_pos hge, Bool.false_eq_true, if_false]
      exact ⟨((ackOk_ubStep D _).1).trans (by simpa using h3), (ackOk_ubStep D _).2⟩
    · simp only [if_neg hge, if_true]
      exact ⟨by simpa using h3, ⟨fun _ => by simpa [h2] using Nat.lt_of_not_ge hge, by simp, by simp [NeedsCmd], by simp, by simp⟩⟩
  have form : ∀ (avail : Bool) (x : List Byte) (nx : CmdType), UbStep D s (printCmdForm D { s with cmd := some s.index } avail x nx) := by
    intro avail x nx
    have := printCmdForm_ubStep D { s with cmd := some s.index } avail x nx (by simpa using hs) (by simpa using hi)
    exact ⟨this.1, this.2⟩
  split
  · split
    · exact next _ (by simpa using hs) rfl rfl
    · exact ⟨rfl, ⟨fun _ => hi, by simp [hs], by simp [NeedsCmd, hs], by simp [hs], by simp [hs]⟩⟩
  · exact form _ _ _
  · exact form _ _ _
  · exact form _ _ _
  · exact form _ _ _
  · exact next _ (by simpa using hs) rfl rfl

/-- **One step of the command machine performs no undefined operation and keeps the index
discipline.** -/
theorem commandService_ubStep (D : Desc) (s : St) (i : SvcIn) (hn : 0 < D.commandsNum) (h : UbInv D s) :
    UbStep D s (commandService D s i).1 := by
  unfold commandService
  split <;> rename_i hs
  · exact errorState_ubStep D s i hs
  · exact processIdleState_ubStep D s i hs
  · exact parsePrefix_ubStep D s i hs
  · exact parseCommand_ubStep D s i hs hn h
  · exact updateCommand_ubStep D s hs hn h
  · exact waitReadAcknowledge_ubStep D s i hs hn
  · exact searchCommand_ubStep D s hs h
  · exact commandFound_ubStep D s hs h
  · exact commandNotFound_ubStep D s
  · exact parseCommandArgs_ubStep D s i hs h
  · exact parseWriteArgs_ubStep D s i hs h
  · exact formatReadArgs_ubStep D s i hs h
  · exact waitTestAcknowledge_ubStep D s i hs h
  · exact formatTestArgs_ubStep D s hs h
  · exact (loops_ubStep D s i hn h).1 hs
  · exact (loops_ubStep D s i hn h).2.2.1 hs
  · exact (loops_ubStep D s i hn h).2.2.2 hs
  · exact (loops_ubStep D s i hn h).2.1 hs
  · exact processHoldState_ubStep D s hs
  · exact processIoWriteWait_ubStep D s hs h
  · exact processIoWrite_ubStep D s i hs h
  · refine ⟨by simp [resetState, St.emit]; split <;> rfl, ?_⟩
    simp only [resetState, St.emit]
    split <;> exact ⟨by simp, by simp, by simp [NeedsCmd], by simp, by simp⟩
  · exact ackOk_ubStep D s
  · exact startFormatRead_ubStep D s (h.cmd (by simp [NeedsCmd, hs]))
  · exact startFormatTest_ubStep D s (h.cmd (by simp [NeedsCmd, hs]))
  · exact printCmdList_ubStep D s hs h

/-! ### the unsolicited machine -/

/-- states in which the unsolicited machine dereferences its command (now or after a flush) -/
def NeedsUCmd (s : St) : Prop :=
  s.ustate = .formatReadArgs ∨ s.ustate = .formatTestArgs ∨ s.ustate = .readLoop ∨ s.ustate = .testLoop ∨
  s.ustate = .afterFlushFormatRead ∨ s.ustate = .afterFlushFormatTest ∨
  ((s.ustate = .flushWait ∨ s.ustate = .flushWrite) ∧ (s.uwriteStateAfter = .fmtRead ∨ s.uwriteStateAfter = .fmtTest))

structure UbInvU (D : Desc) (s : St) : Prop where
  cmd : NeedsUCmd s → s.ucmd.isSome
  var : (s.ustate = .formatReadArgs ∨ s.ustate = .formatTestArgs) → s.uindex < (D.cmdD s.ucmd).varNum
  pos : (s.ustate = .formatReadArgs ∨ s.ustate = .formatTestArgs) → s.uposition ≤ D.unsCap

def UbStepU (D : Desc) (s s' : St) : Prop := s'.ub = s.ub ∧ UbInvU D s'

theorem UbInvU.of_idle {D : Desc} {s : St} (h : s.ustate = .idle) : UbInvU D s :=
  ⟨by simp [NeedsUCmd, h], by simp [h], by simp [h]⟩

theorem unsolicitedResetState_ubStepU (D : Desc) (s : St) : UbStepU D s (unsolicitedResetState s) :=
  ⟨rfl, .of_idle rfl⟩

theorem startFormatRead_ubStepU (D : Desc) (s : St) (hc : s.ucmd.isSome = true) : UbStepU D s (startFormatRead D s .uns) := by
  have p0 : (s.setPos .uns 0).pos .uns ≤ D.capOf .uns := by simp [St.setPos, St.pos]
  simp only [startFormatRead, St.cmdOf, setPos_frame, hc, chkUb_true, endError]
  have pa := printAll_posUb D (s.setPos .uns 0) .uns [(D.cmdD s.ucmd).name, [61]] p0
  have fr := printAll_frame D .uns [(D.cmdD s.ucmd).name, [61]] (s.setPos .uns 0)
  generalize printAll D (s.setPos .uns 0) .uns [(D.cmdD s.ucmd).name, [61]] = r at pa fr
  obtain ⟨t, ok⟩ := r
  simp only [PosUb, St.pos, Desc.capOf] at pa
  simp only [SameCtlNP, SameU', setPos_frame] at fr
  have hub : t.ub = s.ub := by rw [pa.1]; simp
  have hcmd : t.ucmd = s.ucmd := fr.1.2.1.2.2.1
  (repeat' split)
  · exact ⟨hub, .of_idle rfl⟩
  · rename_i hva
    refine ⟨hub, ⟨fun _ => by simp [hcmd, hc], fun _ => ?_, fun _ => pa.2⟩⟩
    simp only [hcmd]
    exact varsAccessible_pos _ _ hva
  · exact ⟨hub, .of_idle rfl⟩
  · exact ⟨by simp [setStateRL, hub], ⟨fun _ => by simp [setStateRL, hcmd, hc], by simp [setStateRL], by simp [setStateRL]⟩⟩

theorem printResponseTest_ubU (D : Desc) (s : St) (hc : s.ucmd.isSome = true) (hp : s.uposition ≤ D.unsCap) :
    (printResponseTest D s .uns).1.ub = s.ub ∧ (printResponseTest D s .uns).1.ucmd = s.ucmd ∧
    ((printResponseTest D s .uns).2 = true →
        (printResponseTest D s .uns).1.ustate = .testLoop ∨
        ((printResponseTest D s .uns).1.ustate = .flushWait ∧ (printResponseTest D s .uns).1.uwriteStateAfter = .ok)) := by
  simp only [printResponseTest, St.cmdOf, hc, chkUb_true]
  cases hd : (D.cmdD s.ucmd).desc with
  | none =>
    simp only [Bool.not_true, Bool.false_eq_true, if_false]
    split
    · simp [setStateTL]
    · simp [startFlush, St.emit]
  | some d =>
    simp only
    have pa := printAll_posUb D s .uns [nlStr s, d] (by simpa [St.pos, Desc.capOf] using hp)
    have fr := printAll_frame D .uns [nlStr s, d] s
    generalize printAll D s .uns [nlStr s, d] = r at pa fr
    obtain ⟨t, ok⟩ := r
    simp only [PosUb] at pa
    simp only [SameCtlNP, SameU'] at fr
    have hcmd : t.ucmd = s.ucmd := fr.1.2.1.2.2.1
    cases ok
    · simp [pa.1, hcmd]
    · simp only [Bool.not_true, Bool.false_eq_true, if_false]
      split
      · simp [setStateTL, pa.1, hcmd]
      · simp [startFlush, St.emit, pa.1, hcmd]

theorem startFormatTest_ubStepU (D : Desc) (s : St) (hc : s.ucmd.isSome = true) : UbStepU D s (startFormatTest D s .uns) := by
  have p0 : (s.setPos .uns 0).pos .uns ≤ D.capOf .uns := by simp [St.setPos, St.pos]
  simp only [startFormatTest, St.cmdOf, setPos_frame, hc, chkUb_true, endError]
  have pa := printAll_posUb D (s.setPos .uns 0) .uns [(D.cmdD s.ucmd).name, [61]] p0
  have fr := printAll_frame D .uns [(D.cmdD s.ucmd).name, [61]] (s.setPos .uns 0)
  generalize printAll D (s.setPos .uns 0) .uns [(D.cmdD s.ucmd).name, [61]] = r at pa fr
  obtain ⟨t, ok⟩ := r
  simp only [PosUb, St.pos, Desc.capOf] at pa
  simp only [SameCtlNP, SameU', setPos_frame] at fr
  have hub : t.ub = s.ub := by rw [pa.1]; simp
  have hcmd : t.ucmd = s.ucmd := fr.1.2.1.2.2.1
  (repeat' split)
  · exact ⟨hub, .of_idle rfl⟩
  · rename_i hva
    simp only [Bool.and_eq_true, decide_eq_true_eq] at hva
    exact ⟨hub, ⟨fun _ => by simp [hcmd, hc], fun _ => by simp only [hcmd]; exact hva.2, fun _ => pa.2⟩⟩
  · have pr := printResponseTest_ubU D t (by rw [hcmd]; exact hc) pa.2
    rename_i hok
    rcases pr.2.2 hok with h | ⟨h1, h2⟩
    · exact ⟨pr.1.trans hub, ⟨fun _ => by rw [pr.2.1, hcmd]; exact hc, by simp [h], by simp [h]⟩⟩
    · exact ⟨pr.1.trans hub, ⟨by simp [NeedsUCmd, h1, h2], by simp [h1], by simp [h1]⟩⟩
  · have pr := printResponseTest_ubU D t (by rw [hcmd]; exact hc) pa.2
    exact ⟨pr.1.trans hub, .of_idle rfl⟩

theorem nextFormatVar_ubU (D : Desc) (s : St) (hp : s.uposition ≤ D.unsCap) :
    (nextFormatVar D s .uns).1.ub = s.ub ∧
    ((nextFormatVar D s .uns).2 = false →
        (nextFormatVar D s .uns).1.ustate = s.ustate ∧ (nextFormatVar D s .uns).1.ucmd = s.ucmd ∧
        (nextFormatVar D s .uns).1.uposition = s.uposition ∧ (nextFormatVar D s .uns).1.uwriteStateAfter = s.uwriteStateAfter) ∧
    ((nextFormatVar D s .uns).2 = true →
        (nextFormatVar D s .uns).1.ustate = .idle ∨
        ((nextFormatVar D s .uns).1.ustate = s.ustate ∧ (nextFormatVar D s .uns).1.ucmd = s.ucmd ∧
         (nextFormatVar D s .uns).1.uindex = s.uindex + 1 ∧ s.uindex + 1 < (D.cmdD s.ucmd).varNum ∧
         (nextFormatVar D s .uns).1.uposition ≤ D.unsCap)) := by
  simp only [nextFormatVar, St.cmdOf, St.idx, St.setIdx, St.pos, Desc.capOf]
  by_cases hlt : s.uindex + 1 < (D.cmdD s.ucmd).varNum
  · simp only [hlt, if_true]
    by_cases hpos : s.uposition ≥ D.unsCap
    · simp only [hpos, if_true]
      exact ⟨by simp [endError, unsolicitedResetState], fun h => Bool.noConfusion h, fun _ => Or.inl (by simp [endError, unsolicitedResetState])⟩
    · simp only [hpos, if_false]
      have hpos' : s.uposition < D.unsCap := by omega
      have sb := (setB_fault D ({ s with uindex := s.uindex + 1 } : St) .uns s.uposition 44).1 hpos'
      refine ⟨by simpa [St.setPos] using sb.2, fun h => Bool.noConfusion h, fun _ => Or.inr ?_⟩
      cases hb : D.unsBuf.isSome <;>
        simp [St.setPos, setB, show s.uposition < D.capOf .uns from hpos', hb] <;> omega
  · simp only [hlt, if_false]
    simp

theorem varReadCb_uns_keep (D : Desc) (s : St) (v : VarD) (i : SvcIn) :
    (varReadCb D s .uns v i).1.ustate = s.ustate ∧ (varReadCb D s .uns v i).1.ucmd = s.ucmd ∧
    (varReadCb D s .uns v i).1.uindex = s.uindex ∧ (varReadCb D s .uns v i).1.uposition = s.uposition ∧
    (varReadCb D s .uns v i).1.uwriteStateAfter = s.uwriteStateAfter := by
  simp only [varReadCb]; split
  · have a := applyNested_frame D .uns false i.vu.acts (s.emit (.varcb .uns ((s.cmdOf .uns).getD 0) (s.idx .uns) false 0 i.vu.ret))
    have c := (applyNested_noedit_pos D .uns i.vu.acts (s.emit (.varcb .uns ((s.cmdOf .uns).getD 0) (s.idx .uns) false 0 i.vu.ret))).2
    simp_all
  · simp

theorem formatVar_uns_keep (D : Desc) (s : St) (v : VarD) :
    (formatVar D s .uns v).1.ustate = s.ustate ∧ (formatVar D s .uns v).1.ucmd = s.ucmd ∧
    (formatVar D s .uns v).1.uindex = s.uindex ∧ (formatVar D s .uns v).1.uwriteStateAfter = s.uwriteStateAfter := by
  refine ⟨(formatVar_state D s .uns v).2, ?_, ?_, ?_⟩ <;> (unfold formatVar; crunch)

theorem formatInfoType_uns_keep (D : Desc) (s : St) (v : VarD) :
    (formatInfoType D s .uns v).1.ustate = s.ustate ∧ (formatInfoType D s .uns v).1.ucmd = s.ucmd ∧
    (formatInfoType D s .uns v).1.uindex = s.uindex ∧ (formatInfoType D s .uns v).1.uwriteStateAfter = s.uwriteStateAfter := by
  refine ⟨?_, ?_, ?_, ?_⟩ <;> (unfold formatInfoType; crunch)

theorem formatReadArgs_ubStepU (D : Desc) (s : St) (i : SvcIn) (hs : s.ustate = .formatReadArgs) (h : UbInvU D s) :
    UbStepU D s (formatReadArgs D s .uns i).1 := by
  have hc := h.cmd (by simp [NeedsUCmd, hs])
  have hv := h.var (Or.inl hs)
  have hp := h.pos (Or.inl hs)
  simp only [formatReadArgs, St.cmdOf, St.idx, hc, chkUb_true, chkUb_ctl, hv, decide_true, endError]
  generalize (D.cmdD s.ucmd).varAt s.uindex = v
  have k1 := varReadCb_uns_keep D s v i
  have u1 := varReadCb_ub D s .uns v i
  generalize varReadCb D s .uns v i = r1 at k1 u1
  obtain ⟨s1, fail⟩ := r1
  simp only at k1 u1
  cases fail
  · simp only [Bool.false_eq_true, if_false]
    have hp1 : s1.pos .uns ≤ D.capOf .uns := by simpa [St.pos, Desc.capOf, k1.2.2.2.1] using hp
    have k2 := formatVar_uns_keep D s1 v
    have u2 := formatVar_posUb D s1 .uns v hp1
    generalize formatVar D s1 .uns v = r2 at k2 u2
    obtain ⟨s2, ok⟩ := r2
    simp only [PosUb, St.pos, Desc.capOf] at k2 u2
    have hub2 : s2.ub = s.ub := u2.1.trans u1
    cases ok
    · exact ⟨hub2, .of_idle rfl⟩
    · simp only [Bool.not_true, Bool.false_eq_true, if_false]
      have n := nextFormatVar_ubU D s2 u2.2
      generalize nextFormatVar D s2 .uns = r3 at n
      obtain ⟨s3, more⟩ := r3
      simp only at n
      have hst2 : s2.ustate = .formatReadArgs := by rw [k2.1, k1.1, hs]
      have hcmd2 : s2.ucmd = s.ucmd := by rw [k2.2.1, k1.2.1]
      have hidx2 : s2.uindex = s.uindex := by rw [k2.2.2.1, k1.2.2.1]
      cases more
      · simp only [Bool.false_eq_true, if_false]
        have m := n.2.1 rfl
        split
        · exact ⟨by simpa [setStateRL] using n.1.trans hub2,
            ⟨fun _ => by simp [setStateRL, m.2.1, hcmd2, hc], by simp [setStateRL], by simp [setStateRL]⟩⟩
        · exact ⟨by simpa [startFlush, St.emit] using n.1.trans hub2,
            ⟨by simp [NeedsUCmd, startFlush, St.emit], by simp [startFlush, St.emit], by simp [startFlush, St.emit]⟩⟩
      · simp only [if_true]
        rcases n.2.2 rfl with a1 | ⟨b1, b2, b3, b4, b5⟩
        · exact ⟨n.1.trans hub2, .of_idle a1⟩
        · exact ⟨n.1.trans hub2, ⟨fun _ => by rw [b2, hcmd2]; exact hc,
            fun _ => by rw [b3, b2, hcmd2, hidx2]; rw [hcmd2, hidx2] at b4; exact b4, fun _ => b5⟩⟩
  · exact ⟨u1, .of_idle rfl⟩

theorem formatTestArgs_ubStepU (D : Desc) (s : St) (hs : s.ustate = .formatTestArgs) (h : UbInvU D s) :
    UbStepU D s (formatTestArgs D s .uns).1 := by
  have hc := h.cmd (by simp [NeedsUCmd, hs])
  have hv := h.var (Or.inr hs)
  have hp := h.pos (Or.inr hs)
  simp only [formatTestArgs, St.cmdOf, St.idx, hc, chkUb_true, chkUb_ctl, hv, decide_true, endError]
  generalize (D.cmdD s.ucmd).varAt s.uindex = v
  have hp0 : s.pos .uns ≤ D.capOf .uns := by simpa [St.pos, Desc.capOf] using hp
  have k2 := formatInfoType_uns_keep D s v
  have u2 := formatInfoType_posUb D s .uns v hp0
  generalize formatInfoType D s .uns v = r2 at k2 u2
  obtain ⟨s2, ok⟩ := r2
  simp only [PosUb, St.pos, Desc.capOf] at k2 u2
  cases ok
  · exact ⟨u2.1, .of_idle rfl⟩
  · simp only [Bool.not_true, Bool.false_eq_true, if_false]
    have n := nextFormatVar_ubU D s2 u2.2
    generalize nextFormatVar D s2 .uns = r3 at n
    obtain ⟨s3, more⟩ := r3
    simp only at n
    cases more
    · simp only [Bool.false_eq_true, if_false]
      have m := n.2.1 rfl
      have hc3 : s3.ucmd.isSome = true := by rw [m.2.1, k2.2.1]; exact hc
      have pr := printResponseTest_ubU D s3 hc3 (by rw [m.2.2.1]; exact u2.2)
      have hub3 : (printResponseTest D s3 .uns).1.ub = s.ub := pr.1.trans (n.1.trans u2.1)
      split
      · rename_i hok
        rcases pr.2.2 hok with g | ⟨g1, g2⟩
        · exact ⟨hub3, ⟨fun _ => by rw [pr.2.1]; exact hc3, by simp [g], by simp [g]⟩⟩
        · exact ⟨hub3, ⟨by simp [NeedsUCmd, g1, g2], by simp [g1], by simp [g1]⟩⟩
      · exact ⟨hub3, .of_idle rfl⟩
    · simp only [if_true]
      rcases n.2.2 rfl with a1 | ⟨b1, b2, b3, b4, b5⟩
      · exact ⟨n.1.trans u2.1, .of_idle a1⟩
      · exact ⟨n.1.trans u2.1, ⟨fun _ => by rw [b2, k2.2.1]; exact hc,
          fun _ => by rw [b3, b2, k2.2.1, k2.2.2.1]; rw [k2.2.1, k2.2.2.1] at b4; exact b4, fun _ => b5⟩⟩

def InLoopU (t : St) : Prop := t.ucmd.isSome = true ∧ (t.ustate = .readLoop ∨ t.ustate = .testLoop)

theorem InLoopU.ubInv {D : Desc} {t : St} (h : InLoopU t) : UbInvU D t := by
  obtain ⟨hc, hs⟩ := h
  rcases hs with hs | hs <;> exact ⟨fun _ => hc, by simp [hs], by simp [hs]⟩

theorem doCall_ubStepU (D : Desc) (t : St) (c : Call) (h : InLoopU t) (hq : UnsCallQ c) (hr : c ≠ .startFlush .reset ∧ c ≠ .startFlush .printCmd) :
    UbStepU D t (doCall D .uns t c) ∧ (InLoopU (doCall D .uns t c) ∨ (doCall D .uns t c).ustate ≠ t.ustate ∨ True) := by
  refine ⟨?_, Or.inr (Or.inr trivial)⟩
  cases c with
  | ackOk => simp [UnsCallQ] at hq
  | ackError => simp [UnsCallQ] at hq
  | startPrintCmdList => simp [UnsCallQ] at hq
  | enableHold =>
    have e : (doCall D .uns t .enableHold).ucmd = t.ucmd ∧ (doCall D .uns t .enableHold).ustate = t.ustate := by simp [doCall, enableHoldState]
    exact ⟨by simp [doCall, enableHoldState], InLoopU.ubInv ⟨by rw [e.1]; exact h.1, by rw [e.2]; exact h.2⟩⟩
  | endOk => exact ⟨by simp [doCall, endOk, unsolicitedResetState], .of_idle (by simp [doCall, endOk, unsolicitedResetState])⟩
  | endError => exact ⟨by simp [doCall, endError, unsolicitedResetState], .of_idle (by simp [doCall, endError, unsolicitedResetState])⟩
  | startFlush a =>
    cases a with
    | reset => exact absurd rfl hr.1
    | printCmd => exact absurd rfl hr.2
    | ok => exact ⟨by simp [doCall, startFlush, St.emit], ⟨by simp [doCall, startFlush, St.emit, NeedsUCmd], by simp [doCall, startFlush, St.emit], by simp [doCall, startFlush, St.emit]⟩⟩
    | fmtRead => exact ⟨by simp [doCall, startFlush, St.emit], ⟨fun _ => by simpa [doCall, startFlush, St.emit] using h.1, by simp [doCall, startFlush, St.emit], by simp [doCall, startFlush, St.emit]⟩⟩
    | fmtTest => exact ⟨by simp [doCall, startFlush, St.emit], ⟨fun _ => by simpa [doCall, startFlush, St.emit] using h.1, by simp [doCall, startFlush, St.emit], by simp [doCall, startFlush, St.emit]⟩⟩
  | startFormatRead => exact startFormatRead_ubStepU D t h.1
  | startFormatTest => exact startFormatTest_ubStepU D t h.1
  | holdExit ok =>
    have e : (doCall D .uns t (.holdExit ok)).ucmd = t.ucmd ∧ (doCall D .uns t (.holdExit ok)).ustate = t.ustate := by
      simp [doCall, holdExit]; split <;> simp
    exact ⟨by simp [doCall], InLoopU.ubInv ⟨by rw [e.1]; exact h.1, by rw [e.2]; exact h.2⟩⟩

structure ArmUbU (D : Desc) (t : St) (l : List Call) : Prop where
  step : UbStepU D t (doCalls D .uns t l)

theorem tables_ubU (D : Desc) (t : St) (ret : Int) (h : InLoopU t) :
    ArmUbU D t (Gen.process_read_loop ret .uns) ∧ ArmUbU D t (Gen.process_test_loop ret .uns) := by
  have hx : ∀ ok, InLoopU (doCall D .uns t (.holdExit ok)) ∧ (doCall D .uns t (.holdExit ok)).ub = t.ub := by
    intro ok
    have e : (doCall D .uns t (.holdExit ok)).ucmd = t.ucmd ∧ (doCall D .uns t (.holdExit ok)).ustate = t.ustate := by
      simp [doCall, holdExit]; split <;> simp
    exact ⟨⟨by rw [e.1]; exact h.1, by rw [e.2]; exact h.2⟩, by simp [doCall]⟩
  have h0 : ArmUbU D t [] := ⟨⟨rfl, h.ubInv⟩⟩
  have h1 : ∀ c, UnsCallQ c → (c ≠ .startFlush .reset ∧ c ≠ .startFlush .printCmd) → ArmUbU D t [c] := by
    intro c hq hc; exact ⟨by simp only [doCalls]; exact (doCall_ubStepU D t c h hq hc).1⟩
  have h2 : ∀ ok c, UnsCallQ c → (c ≠ .startFlush .reset ∧ c ≠ .startFlush .printCmd) → ArmUbU D t [.holdExit ok, c] := by
    intro ok c hq hc
    refine ⟨?_⟩
    simp only [doCalls]
    have := (doCall_ubStepU D _ c (hx ok).1 hq hc).1
    exact ⟨this.1.trans (hx ok).2, this.2⟩
  refine ⟨?_, ?_⟩
  · unfold Gen.process_read_loop
    (repeat' split) <;> first | contradiction | exact h0 | exact h2 _ _ (by simp [UnsCallQ]) (by decide) | exact h1 _ (by simp [UnsCallQ]) (by decide)
  · unfold Gen.process_test_loop
    (repeat' split) <;> first | contradiction | exact h0 | exact h2 _ _ (by simp [UnsCallQ]) (by decide) | exact h1 _ (by simp [UnsCallQ]) (by decide)

theorem loops_ubStepU (D : Desc) (s : St) (i : SvcIn) (h : UbInvU D s) :
    (s.ustate = .readLoop → UbStepU D s (processReadLoop D s .uns i).1) ∧
    (s.ustate = .testLoop → UbStepU D s (processTestLoop D s .uns i).1) := by
  have key : ∀ (ev : Ev), s.ucmd.isSome = true → (s.ustate = .readLoop ∨ s.ustate = .testLoop) →
      InLoopU (applyNested D .uns true (s.emit ev) i.hu.acts) ∧ (applyNested D .uns true (s.emit ev) i.hu.acts).ub = s.ub := by
    intro ev hc hst
    have a := applyNested_frame D .uns true i.hu.acts (s.emit ev)
    simp only [SameU'] at a
    have a1 : (applyNested D .uns true (s.emit ev) i.hu.acts).ucmd = s.ucmd := a.2.1.2.2.1
    have a2 : (applyNested D .uns true (s.emit ev) i.hu.acts).ustate = s.ustate := a.2.1.1
    exact ⟨⟨by rw [a1]; exact hc, by rw [a2]; exact hst⟩, by simp⟩
  refine ⟨?_, ?_⟩ <;> intro hs
  · have hc := h.cmd (by simp [NeedsUCmd, hs])
    simp only [processReadLoop, St.cmdOf, hc, chkUb_true]
    have k := key (.handler .uns .read (s.ucmd.getD 0) (cstr D s .uns).1 (cstr D s .uns).2 (s.pos .uns) (D.capOf .uns) i.hu.ret) hc (Or.inl hs)
    have t := (tables_ubU D _ i.hu.ret k.1).1.step
    exact ⟨t.1.trans k.2, t.2⟩
  · have hc := h.cmd (by simp [NeedsUCmd, hs])
    simp only [processTestLoop, St.cmdOf, hc, chkUb_true]
    have k := key (.handler .uns .test (s.ucmd.getD 0) (cstr D s .uns).1 (cstr D s .uns).2 (s.pos .uns) (D.capOf .uns) i.hu.ret) hc (Or.inr hs)
    have t := (tables_ubU D _ i.hu.ret k.1).2.step
    exact ⟨t.1.trans k.2, t.2⟩

theorem checkUnsolicitedBuffers_ubStepU (D : Desc) (s : St) (hs : s.ustate = .idle) : UbStepU D s (checkUnsolicitedBuffers D s) := by
  unfold checkUnsolicitedBuffers
  split
  · exact ⟨rfl, .of_idle hs⟩
  · simp only
    have hub : (ringPop D s).ub = s.ub := by simp [ringPop]
    have hst : (ringPop D s).ustate = s.ustate := by simp [ringPop]
    (repeat' split)
    · have := startFormatRead_ubStepU D (({ ringPop D s with ucmd := some (ringFront s).1, ucmdType := (ringFront s).2 } : St).emit (.pop (ringFront s).1 (ringFront s).2)) (by simp [St.emit])
      exact ⟨this.1.trans (by simp [St.emit, hub]), this.2⟩
    · have := startFormatTest_ubStepU D (({ ringPop D s with ucmd := some (ringFront s).1, ucmdType := (ringFront s).2 } : St).emit (.pop (ringFront s).1 (ringFront s).2)) (by simp [St.emit])
      exact ⟨this.1.trans (by simp [St.emit, hub]), this.2⟩
    · exact ⟨by simp [St.emit, hub], .of_idle (by simp [St.emit, hst, hs])⟩

theorem unsolicitedProcessIoWrite_ubStepU (D : Desc) (s : St) (i : SvcIn) (hs : s.ustate = .flushWrite) (h : UbInvU D s) :
    UbStepU D s (unsolicitedProcessIoWrite D s i).1 := by
  simp only [unsolicitedProcessIoWrite]
  generalize writeByte D s .uns = wb
  obtain ⟨ch, inb⟩ := wb
  have keep : ∀ t : St, t.ustate = s.ustate → t.uwriteStateAfter = s.uwriteStateAfter → t.ucmd = s.ucmd → UbInvU D t := by
    intro t h1 h2 h4
    exact ⟨fun hh => by rw [h4]; exact h.cmd (by simp only [NeedsUCmd] at hh ⊢; rw [← h1, ← h2]; exact hh), by simp [h1, hs], by simp [h1, hs]⟩
  simp only
  (repeat' split)
  · exact ⟨by simp, keep _ (by simp) (by simp) (by simp)⟩
  · exact ⟨by simp, keep _ (by simp) (by simp) (by simp)⟩
  · refine ⟨by simp [St.emit], ?_⟩
    cases ha : s.uwriteStateAfter with
    | reset => exact ⟨by simp [St.emit, ha, After.toU, NeedsUCmd], by simp [St.emit, ha, After.toU], by simp [St.emit, ha, After.toU]⟩
    | ok => exact ⟨by simp [St.emit, ha, After.toU, NeedsUCmd], by simp [St.emit, ha, After.toU], by simp [St.emit, ha, After.toU]⟩
    | fmtRead => exact ⟨fun _ => by simpa [St.emit] using h.cmd (by simp [NeedsUCmd, hs, ha]), by simp [St.emit, ha, After.toU], by simp [St.emit, ha, After.toU]⟩
    | fmtTest => exact ⟨fun _ => by simpa [St.emit] using h.cmd (by simp [NeedsUCmd, hs, ha]), by simp [St.emit, ha, After.toU], by simp [St.emit, ha, After.toU]⟩
    | printCmd => exact ⟨by simp [St.emit, ha, After.toU, NeedsUCmd], by simp [St.emit, ha, After.toU], by simp [St.emit, ha, After.toU]⟩
  · exact ⟨by simp, keep _ (by simp) (by simp) (by simp)⟩
  · exact ⟨by simp [St.emit], keep _ (by simp [St.emit]) (by simp [St.emit]) (by simp [St.emit])⟩
  · exact ⟨by simp [St.emit], keep _ (by simp [St.emit]) (by simp [St.emit]) (by simp [St.emit])⟩

/-- **One step of the unsolicited machine performs no undefined operation and keeps its index
discipline.** -/
theorem unsolicitedEventsService_ubStepU (D : Desc) (s : St) (i : SvcIn) (h : UbInvU D s) :
    UbStepU D s (unsolicitedEventsService D s i).1 := by
  unfold unsolicitedEventsService
  split <;> rename_i hs
  · exact checkUnsolicitedBuffers_ubStepU D s hs
  · exact formatReadArgs_ubStepU D s i hs h
  · exact formatTestArgs_ubStepU D s hs h
  · exact (loops_ubStepU D s i h).1 hs
  · exact (loops_ubStepU D s i h).2 hs
  · simp only [unsolicitedProcessIoWriteWait]
    split
    · refine ⟨rfl, ⟨fun hn => h.cmd ?_, by simp, by simp⟩⟩
      simp only [NeedsUCmd, hs] at hn ⊢; simp at hn ⊢; exact hn
    · exact ⟨rfl, h⟩
  · exact unsolicitedProcessIoWrite_ubStepU D s i hs h
  · exact unsolicitedResetState_ubStepU D s
  · exact unsolicitedResetState_ubStepU D s
  · exact startFormatRead_ubStepU D s (h.cmd (by simp [NeedsUCmd, hs]))
  · exact startFormatTest_ubStepU D s (h.cmd (by simp [NeedsUCmd, hs]))

end Cat
