/-
  Translator item T7: `prepare_parse_command` (presets the match-state lanes, the request type and the cursors) and `prepare_search_command`: C02, C20.
  (`Gen/Setters/Prepare.lean`, regenerated from `src/cat.c` on every run; the model's functions are proved equal to the generated ones).
-/
import CatVerif.Gen.Setters.Prepare
namespace Cat

theorem prepareSearchCommand_generated (D : Desc) (s : St) : prepareSearchCommand s = Gen.prepare_search_command D s := rfl

theorem prepareParseCommand_generated (D : Desc) (s : St) : prepareParseCommand D s = Gen.prepare_parse_command D s := by
  unfold prepareParseCommand Gen.prepare_parse_command
  have : lanesInit = 85 := by decide
  simp [this]

end Cat
