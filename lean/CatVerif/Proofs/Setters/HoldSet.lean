/-
  Translator item T7: `enable_hold_state`: C14, C20.
  (`Gen/Setters/HoldSet.lean`, regenerated from `src/cat.c` on every run; the model's functions are proved equal to the generated ones).
-/
import CatVerif.Gen.Setters.HoldSet
namespace Cat

theorem enableHoldState_generated (D : Desc) (s : St) : enableHoldState s = Gen.enable_hold_state D s := rfl

end Cat
