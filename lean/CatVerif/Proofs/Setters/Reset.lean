/-
  Translator item T7: `reset_state` (clears `cr_flag` and returns to IDLE unless a command is held) and `unsolicited_reset_state`: C01, C14, C20.
  (`Gen/Setters/Reset.lean`, regenerated from `src/cat.c` on every run; the model's functions are proved equal to the generated ones).
-/
import CatVerif.Gen.Setters.Reset
namespace Cat

theorem resetState_generated (D : Desc) (s : St) : resetState s = Gen.reset_state D s := by
  unfold resetState Gen.reset_state
  cases h : s.holdFlag <;> simp [h]

theorem unsolicitedResetState_generated (D : Desc) (s : St) : unsolicitedResetState s = Gen.unsolicited_reset_state D s := rfl

end Cat
