/-
  Translator item T7: `start_flush_io_buffer`, `unsolicited_start_flush_io_buffer`, `start_flush_io_buffer_raw` (the output cursor and phases of a unit; the model's ghost event `flushStart` appears explicitly): C11, C20.
  (`Gen/Setters/Flush.lean`, regenerated from `src/cat.c` on every run; the model's functions are proved equal to the generated ones).
-/
import CatVerif.Gen.Setters.Flush
namespace Cat

theorem startFlush_cmd_generated (D : Desc) (s : St) (a : After) :
    startFlush s .cmd a = (Gen.start_flush_io_buffer D s a).emit (.flushStart .cmd false) := rfl

theorem startFlush_uns_generated (D : Desc) (s : St) (a : After) :
    startFlush s .uns a = (Gen.unsolicited_start_flush_io_buffer D s a).emit (.flushStart .uns false) := rfl

theorem startFlushRaw_generated (D : Desc) (s : St) (a : After) :
    startFlushRaw s a = (Gen.start_flush_io_buffer_raw D s a).emit (.flushStart .cmd true) := rfl

end Cat
