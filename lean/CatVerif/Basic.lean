def hello := "world"
