/-
  Operations on the library as the application sees them: one `Op` per public API call (plus
  the application's own changes to flags and variable storage), `apply`, and `runOps`.
-/
import CatVerif.Model.Fsm
namespace Cat

inductive Op
  | service (i : SvcIn)
  | isBusy (lk ul : Int)
  | isHold (lk ul : Int)
  | isFull (lk ul : Int)
  | trigger (c : Nat) (t : Int) (lk ul : Int)
  | holdExit (st : Int) (lk ul : Int)
  | buffered (c : Nat) (t : Int)
  | setCmdDisable (c : Nat) (v : Bool)
  | setCmdOnlyTest (c : Nat) (v : Bool)
  | setGroupDisable (g : Nat) (v : Bool)
  | poke (slot off : Nat) (bs : List Byte)
  deriving Repr, Inhabited

structure World where
  D : Desc
  s : St
  deriving Repr, Inhabited

/-- update the `k`-th registered command (table order) -/
def modifyCmdInGroups (fn : CmdD → CmdD) : List GroupD → Nat → List GroupD
  | [], _ => []
  | g :: gs, i =>
    if i ≥ g.cmds.length then g :: modifyCmdInGroups fn gs (i - g.cmds.length)
    else { g with cmds := g.cmds.modify i fn } :: gs

def Desc.modifyCmd (D : Desc) (id : Nat) (fn : CmdD → CmdD) : Desc :=
  if id < D.commandsNum then { D with groups := modifyCmdInGroups fn D.groups id }
  else { D with extras := D.extras.modify (id - D.commandsNum) fn }

def apply (w : World) (op : Op) : World × Int :=
  let s := { w.s with log := [] }
  let D := w.D
  match op with
  | .service i => let (s, r) := service D s i; ({ w with s := s }, r)
  | .isBusy lk ul => let (s, r) := catIsBusy D s lk ul; ({ w with s := s }, r)
  | .isHold lk ul => let (s, r) := catIsHold D s lk ul; ({ w with s := s }, r)
  | .isFull lk ul => let (s, r) := catIsFull D s lk ul; ({ w with s := s }, r)
  | .trigger c t lk ul => let (s, r) := catTrigger D s c t lk ul; ({ w with s := s }, r)
  | .holdExit st lk ul => let (s, r) := catHoldExit D s st lk ul; ({ w with s := s }, r)
  | .buffered c t => ({ w with s := s }, catIsBuffered D s c (cmdTypeOfInt t))
  | .setCmdDisable c v => ({ D := D.modifyCmd c (fun x => { x with disable := v }), s := s }, 0)
  | .setCmdOnlyTest c v => ({ D := D.modifyCmd c (fun x => { x with onlyTest := v }), s := s }, 0)
  | .setGroupDisable g v =>
    ({ D := { D with groups := D.groups.modify g (fun x => { x with disable := v }) }, s := s }, 0)
  | .poke slot off bs =>
    let cur := s.slotGet slot
    let s := if off + bs.length ≤ cur.length then
        { s with mem := s.mem.set slot (cur.take off ++ bs ++ cur.drop (off + bs.length)) } else s
    ({ w with s := s }, 0)

/-- run a history; returns the final world and, per operation, its result and events -/
def runOps : World → List Op → World × List (Int × List Ev)
  | w, [] => (w, [])
  | w, op :: r =>
    let (w1, ret) := apply w op
    let (w2, tr) := runOps w1 r
    (w2, (ret, w1.s.log) :: tr)

end Cat
