/-
  Types of the hand-written model of /repo/src/cat.c (see DESIGN.md section 4).
  Core Lean only: the driver links as a `lean_exe`.
-/
namespace Cat

/-- A byte.  Modelled as a natural number; every byte that enters the model (input,
descriptor strings, variable storage, handler edits) is `< 256` by `Desc.WF`/`OpsOk`, and the
only arithmetic performed on bytes is guarded by range tests, exactly as in the C code
(all comparisons in `cat.c` are two-sided ASCII range tests or equalities, so the signedness of
`char` is immaterial; DESIGN.md section 1). -/
notation "Byte" => Nat

inductive VarType | intDec | uintDec | numHex | bufHex | bufString
  deriving DecidableEq, Repr, Inhabited

inductive Access | rw | ro | wo
  deriving DecidableEq, Repr, Inhabited

/-- `struct cat_variable`. `slot` names the storage block `data` points to. -/
structure VarD where
  name : Option (List Byte)
  type : VarType
  slot : Nat
  dataSize : Nat
  access : Access
  hasRead : Bool
  hasWrite : Bool
  deriving DecidableEq, Repr, Inhabited

/-- `struct cat_command`. `vars = none` is the NULL pointer. -/
structure CmdD where
  name : List Byte
  desc : Option (List Byte)
  hasWrite : Bool
  hasRead : Bool
  hasRun : Bool
  hasTest : Bool
  vars : Option (List VarD)
  needAll : Bool
  onlyTest : Bool
  disable : Bool
  implicitWrite : Bool
  deriving DecidableEq, Repr, Inhabited

structure GroupD where
  name : Option (List Byte)
  cmds : List CmdD
  disable : Bool
  deriving DecidableEq, Repr, Inhabited

/-- `struct cat_descriptor` plus the build-time ring capacity, the commands that exist outside
every group (events may be triggered on them) and whether a mutex interface is configured. -/
structure Desc where
  groups : List GroupD
  extras : List CmdD
  bufSize : Nat
  unsBuf : Option Nat
  cap : Nat
  hasMutex : Bool
  deriving Repr, Inhabited

inductive Fsm | cmd | uns
  deriving DecidableEq, Repr, Inhabited

/-- `cat_state` -/
inductive CState
  | error | idle | parsePrefix | parseCommandChar | updateCommandState | waitReadAck
  | searchCommand | commandFound | commandNotFound | parseCommandArgs | parseWriteArgs
  | formatReadArgs | waitTestAck | formatTestArgs | writeLoop | readLoop | testLoop | runLoop
  | hold | flushWait | flushWrite | afterFlushReset | afterFlushOk | afterFlushFormatRead
  | afterFlushFormatTest | printCmd
  deriving DecidableEq, Repr, Inhabited

/-- `cat_unsolicited_state` -/
inductive UState
  | idle | formatReadArgs | formatTestArgs | readLoop | testLoop | flushWait | flushWrite
  | afterFlushReset | afterFlushOk | afterFlushFormatRead | afterFlushFormatTest
  deriving DecidableEq, Repr, Inhabited

/-- `cat_cmd_type` including the two sentinels. -/
inductive CmdType | none | run | read | write | test | total
  deriving DecidableEq, Repr, Inhabited

/-- Where `write_buf` points: into the static `"\r\n"` (offset 0 or 1) or at the start of the
machine's own buffer region. -/
inductive WSrc | nl (off : Nat) | main
  deriving DecidableEq, Repr, Inhabited

/-- The state a flush continues with, independent of the machine. -/
inductive After | reset | ok | fmtRead | fmtTest | printCmd
  deriving DecidableEq, Repr, Inhabited

inductive HKind | write | read | run | test
  deriving DecidableEq, Repr, Inhabited

/-- The helper calls that occur in the arms of the four return-code switches
(`process_write_loop`, `process_run_loop`, `process_read_loop`, `process_test_loop`).
The tables themselves are generated from the source (`Gen/Source.lean`). -/
inductive Call
  | ackOk | ackError | enableHold | startPrintCmdList
  | endOk | endError
  | startFlush (a : After)          -- start_flush_io_buffer / unsolicited_start_flush_io_buffer
  | startFormatRead | startFormatTest
  | holdExit (ok : Bool)            -- hold_exit(self, CAT_STATUS_OK / CAT_STATUS_ERROR)
  deriving DecidableEq, Repr, Inhabited

/-- API calls a handler may make re-entrantly, and the edit a read/test handler may apply to the
response buffer. Performed in list order. -/
inductive Nested
  | trigger (cmd : Nat) (t : Int)
  | holdExit (st : Int)
  | poke (slot off : Nat) (bs : List Byte)
  | edit (bs : List Byte)
  | report (n : Nat)                 -- a read/test handler stores n through `data_size` without touching the buffer
  deriving DecidableEq, Repr, Inhabited

/-- What a callback answers: its return value and what it does meanwhile. -/
structure HAnswer where
  ret : Int
  acts : List Nested := []
  deriving DecidableEq, Repr, Inhabited

/-- The environment's answers for one `cat_service` call: each machine performs at most one io
call and at most one handler or variable callback per call. -/
structure SvcIn where
  rd : Option Byte := none      -- what io->read delivers if called (none: returns 0)
  wr : Bool := true             -- whether io->write accepts
  hu : HAnswer := ⟨3, []⟩      -- command handler called by the unsolicited machine
  hc : HAnswer := ⟨3, []⟩      -- command handler called by the command machine
  vu : HAnswer := ⟨0, []⟩      -- variable callback, unsolicited machine
  vc : HAnswer := ⟨0, []⟩      -- variable callback, command machine
  lock : Int := 0
  unlock : Int := 0
  deriving Repr, Inhabited

/-- Observable actions and a few ghost events (marked). -/
inductive Ev
  | lock (r : Int)
  | unlock (r : Int)
  | rd (b : Option Byte)
  | wr (f : Fsm) (b : Byte) (acc : Bool) (part : Char)   -- part: b/m/a/r (where in the unit)
  | handler (f : Fsm) (k : HKind) (cmd : Nat) (data : List Byte) (z : Bool) (len aux : Nat) (ret : Int)
  | varcb (f : Fsm) (cmd idx : Nat) (isWrite : Bool) (size : Nat) (ret : Int)
  | nestedTrig (cmd : Nat) (t : Int) (ret : Int)
  | nestedExit (st : Int) (ret : Int)
  | ack (ok : Bool)                          -- ghost: ack_ok / ack_error executed
  | ackDone                                  -- ghost: reset_state executed from AFTER_FLUSH_RESET
  | flushStart (f : Fsm) (raw : Bool)        -- ghost: a unit starts
  | flushEnd (f : Fsm)                       -- ghost: the unit's last byte has been taken
  | memWrite (slot idx : Nat)                -- ghost: one byte of variable storage stored
  | pop (cmd : Nat) (t : CmdType)            -- ghost: event taken from the ring
  deriving DecidableEq, Repr, Inhabited

/-- The whole mutable world of the library: `struct cat_object` (field for field, pointers as
indices), the working buffer(s), variable storage, fault flags and the event log of the
current call. -/
structure St where
  index : Nat := 0
  partialCntr : Nat := 0
  length : Nat := 0
  position : Nat := 0
  writeSize : Nat := 0
  cmd : Option Nat := none
  cmdType : CmdType := .none
  currentChar : Byte := 0
  state : CState := .idle
  crFlag : Bool := false
  holdFlag : Bool := false
  holdExitStatus : Int := 0
  writeSrc : WSrc := .main
  writeState : Nat := 0
  writeStateAfter : After := .reset
  implicitWriteFlag : Bool := false
  -- unsolicited_fsm
  ustate : UState := .idle
  uindex : Nat := 0
  uposition : Nat := 0
  ucmd : Option Nat := none
  ucmdType : CmdType := .none
  uwriteSrc : WSrc := .main
  uwriteState : Nat := 0
  uwriteStateAfter : After := .reset
  ring : List (Nat × CmdType) := []
  rtail : Nat := 0
  rhead : Nat := 0
  rcount : Nat := 0
  -- memory handed over by the descriptor
  buf : List Byte := []
  ubuf : List Byte := []
  mem : List (List Byte) := []
  -- ghosts
  oob : Bool := false       -- an access outside the region it belongs to
  ub : Bool := false        -- other undefined behaviour (NULL dereference, overflow)
  log : List Ev := []
  deriving Repr, Inhabited

end Cat
