/-
  Pure helper functions of the model: character classes (through the generated definitions),
  the match-state lanes, number/text parsers over a byte list, printers (the modelled part of
  `snprintf`), little-endian variable access.
-/
import CatVerif.Gen.Source
namespace Cat

/-! ### characters -/

/-- value of a byte read through C's signed `char` -/
def sc (b : Byte) : Int := if b < 128 then (b : Int) else (b : Int) - 256
/-- back to the stored byte -/
def uc (i : Int) : Byte := (i % 256).toNat

def toUpper (b : Byte) : Byte := uc (Gen.to_upper (sc b))
def isNameChar (b : Byte) : Bool := Gen.is_valid_cmd_name_char (sc b) != 0
def isDecChar (b : Byte) : Bool := Gen.is_valid_dec_char (sc b) != 0
def isHexChar (b : Byte) : Bool := Gen.is_valid_hex_char (sc b) != 0
def hexVal (b : Byte) : Nat := (Gen.convert_hex_char_to_value (sc b)).toNat

/-! ### 2-bit match-state lanes (`get_cmd_state` / `set_cmd_state`) -/

def laneGet (b : Byte) (i : Nat) : Nat := b / 4 ^ (i % 4) % 4
def laneSet (b : Byte) (i : Nat) (v : Nat) : Byte :=
  (b - (b / 4 ^ (i % 4) % 4) * 4 ^ (i % 4) + (v % 4) * 4 ^ (i % 4)) % 256

/-! ### printers -/

def decDigits (n : Nat) : List Byte :=
  if h : n < 10 then [48 + n] else decDigits (n / 10) ++ [48 + n % 10]
decreasing_by omega

def fmtInt (v : Int) : List Byte := if v < 0 then 45 :: decDigits (-v).toNat else decDigits v.toNat

def hexDigitU (d : Nat) : Byte := if d < 10 then 48 + d else 55 + d

/-- `%0wX`: at least `w` upper-case hex digits. -/
def hexDigits (n : Nat) : List Byte :=
  if h : n < 16 then [hexDigitU n] else hexDigits (n / 16) ++ [hexDigitU (n % 16)]
decreasing_by omega

def hexFixed (w : Nat) (v : Nat) : List Byte :=
  let ds := hexDigits v
  List.replicate (w - ds.length) 48 ++ ds

/-! ### little-endian variable storage -/

def leValue : List Byte → Nat
  | [] => 0
  | b :: r => b + 256 * leValue r

def leBytes : Nat → Nat → List Byte
  | 0, _ => []
  | n + 1, v => (v % 256) :: leBytes n (v / 256)

def toSigned (bits : Nat) (v : Nat) : Int := if v < 2 ^ (bits - 1) then (v : Int) else (v : Int) - 2 ^ bits
def ofSigned (bits : Nat) (v : Int) : Nat := (v % 2 ^ bits).toNat

/-! ### argument parsers
Each takes the bytes of the command buffer from `position` to the end of the command region.
Result: C return value (-1, 0, 1), parsed value, number of bytes consumed (`position` advance),
and whether the text ran off the region (the C loop would read outside the buffer). -/

structure PNum where
  ret : Int
  val : Nat := 0
  neg : Bool := false
  used : Nat
  off : Bool := false
  deriving Repr, DecidableEq, Inhabited

def U64MAX : Nat := 18446744073709551615
def I64MAX : Nat := 9223372036854775807

/-- `parse_uint_decimal` (with the overflow guard of the repaired source) -/
def parseUIntDec : List Byte → Nat → Bool → Nat → PNum
  | [], _, _, n => { ret := -1, used := n, off := true }
  | ch :: r, val, ok, n =>
    if ok && (ch == 0 || ch == 44) then { ret := if ch == 44 then 1 else 0, val := val, used := n + 1 }
    else if isDecChar ch then
      if val > (U64MAX - (ch - 48)) / 10 then { ret := -1, used := n + 1 }
      else parseUIntDec r (val * 10 + (ch - 48)) true (n + 1)
    else { ret := -1, used := n + 1 }

/-- `parse_int_decimal`; `sign`: 0 = not yet seen, 1 = plus, 2 = minus. The magnitude is
accumulated and the sign applied at the end, as in the C code. -/
def parseIntDec : List Byte → Nat → Nat → Bool → Nat → PNum
  | [], _, _, _, n => { ret := -1, used := n, off := true }
  | ch :: r, val, sign, ok, n =>
    if ok && (ch == 0 || ch == 44) then
      { ret := if ch == 44 then 1 else 0, val := val, neg := sign == 2, used := n + 1 }
    else if sign == 0 then
      if ch == 45 then parseIntDec r val 2 ok (n + 1)
      else if ch == 43 then parseIntDec r val 1 ok (n + 1)
      else if isDecChar ch then parseIntDec r (ch - 48) 1 true (n + 1)
      else { ret := -1, used := n + 1 }
    else if isDecChar ch then
      if val > (I64MAX - (ch - 48)) / 10 then { ret := -1, used := n + 1 }
      else parseIntDec r (val * 10 + (ch - 48)) sign true (n + 1)
    else { ret := -1, used := n + 1 }

/-- `parse_num_hexadecimal`; `st` is the C local `state` (0, 1, 2, 3). -/
def parseNumHex : List Byte → Nat → Nat → Nat → PNum
  | [], _, _, n => { ret := -1, used := n, off := true }
  | ch0 :: r, val, st, n =>
    let ch := toUpper ch0
    if st ≥ 3 && (ch == 0 || ch == 44) then { ret := if ch == 44 then 1 else 0, val := val, used := n + 1 }
    else if st == 0 then
      if ch != 48 then { ret := -1, used := n + 1 } else parseNumHex r val 1 (n + 1)
    else if st == 1 then
      if ch != 88 then { ret := -1, used := n + 1 } else parseNumHex r val 2 (n + 1)
    else if isHexChar ch then
      if val / 2 ^ 60 != 0 then { ret := -1, used := n + 1 }
      else parseNumHex r (val * 16 + hexVal ch) 3 (n + 1)
    else { ret := -1, used := n + 1 }

/-- Result of the two buffer parsers: besides the return value, the bytes stored so far (in
store order, starting at index 0 of the variable's data; also on the failing paths, where C has
already stored them), the final `size`, and whether the closing NUL of a string was stored. -/
structure PBuf where
  ret : Int
  stored : List Byte := []
  size : Nat := 0
  used : Nat
  off : Bool := false
  deriving Repr, DecidableEq, Inhabited

/-- `parse_buffer_hexadecimal`. `byte`/`st`/`acc` are the C locals `byte`, `state`, and the
bytes stored so far (reversed). `dataSize` is `var->data_size`. -/
def parseBufHex (dataSize : Nat) : List Byte → Nat → Bool → List Byte → Nat → PBuf
  | [], _, _, acc, n => { ret := -1, stored := acc.reverse, size := acc.length, used := n, off := true }
  | ch0 :: r, byte, st, acc, n =>
    let ch := toUpper ch0
    if acc.length > 0 && !st && (ch == 0 || ch == 44) then
      { ret := if ch == 44 then 1 else 0, stored := acc.reverse, size := acc.length, used := n + 1 }
    else if !isHexChar ch then { ret := -1, stored := acc.reverse, size := acc.length, used := n + 1 }
    else
      let byte := (byte * 16 + hexVal ch) % 256
      if st then
        if acc.length ≥ dataSize then { ret := -1, stored := acc.reverse, size := acc.length, used := n + 1 }
        else parseBufHex dataSize r 0 false (byte :: acc) (n + 1)
      else parseBufHex dataSize r byte true acc (n + 1)

/-- `parse_buffer_string`; `st` is the C local `state` (0..3). On success the closing NUL is
stored at index `size` (represented by `stored` ending in 0 and `size` not counting it). -/
def parseBufString (dataSize : Nat) : List Byte → Nat → List Byte → Nat → PBuf
  | [], _, acc, n => { ret := -1, stored := acc.reverse, size := acc.length, used := n, off := true }
  | ch :: r, st, acc, n =>
    if st == 0 then
      if ch != 34 then { ret := -1, stored := acc.reverse, size := acc.length, used := n + 1 }
      else parseBufString dataSize r 1 acc (n + 1)
    else if st == 1 then
      if ch == 0 then { ret := -1, stored := acc.reverse, size := acc.length, used := n + 1 }
      else if ch == 92 then parseBufString dataSize r 2 acc (n + 1)
      else if ch == 34 then parseBufString dataSize r 3 acc (n + 1)
      else if acc.length ≥ dataSize then { ret := -1, stored := acc.reverse, size := acc.length, used := n + 1 }
      else parseBufString dataSize r 1 (ch :: acc) (n + 1)
    else if st == 2 then
      if ch == 92 || ch == 34 || ch == 110 then
        let c := if ch == 110 then 10 else ch
        if acc.length ≥ dataSize then { ret := -1, stored := acc.reverse, size := acc.length, used := n + 1 }
        else parseBufString dataSize r 1 (c :: acc) (n + 1)
      else { ret := -1, stored := acc.reverse, size := acc.length, used := n + 1 }
    else
      if ch == 0 || ch == 44 then
        if acc.length ≥ dataSize then { ret := -1, stored := acc.reverse, size := acc.length, used := n + 1 }
        else { ret := if ch == 44 then 1 else 0, stored := acc.reverse ++ [0], size := acc.length, used := n + 1 }
      else { ret := -1, stored := acc.reverse, size := acc.length, used := n + 1 }

/-! ### response text builders -/

/-- `format_buffer_string` body between the quotes: stops at the first NUL. -/
def escapeStr : List Byte → List (List Byte)
  | [] => []
  | ch :: r =>
    if ch == 0 then []
    else if ch == 92 then [92, 92] :: escapeStr r
    else if ch == 34 then [92, 34] :: escapeStr r
    else if ch == 10 then [92, 110] :: escapeStr r
    else [ch] :: escapeStr r

def strlenOf : List Byte → Nat
  | [] => 0
  | b :: r => if b == 0 then 0 else 1 + strlenOf r

def typeName (t : VarType) (size : Nat) : Option (List Byte) :=
  let num (p : List Byte) : Option (List Byte) :=
    if size == 1 then some (p ++ [56]) else if size == 2 then some (p ++ [49, 54])
    else if size == 4 then some (p ++ [51, 50]) else none
  match t with
  | .intDec => num [73, 78, 84]            -- INT
  | .uintDec => num [85, 73, 78, 84]       -- UINT
  | .numHex => num [72, 69, 88]            -- HEX
  | .bufHex => some [72, 69, 88, 66, 85, 70]   -- HEXBUF
  | .bufString => some [83, 84, 82, 73, 78, 71] -- STRING

def accessName : Access → List Byte
  | .rw => [82, 87] | .ro => [82, 79] | .wo => [87, 79]

end Cat
