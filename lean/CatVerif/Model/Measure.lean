/-
  The liveness measure of `cat_service` (C15): how much both machines still have to do, as an
  explicit expression in the table size, the buffer capacities, the number of variables and the
  number of queued events.  Definitions only (the driver prints the value so that the
  correspondence check can compare the implementation's drains with it); the proofs are in
  `Proofs/Live.lean`.
-/
import CatVerif.Model.Api
namespace Cat
open St

def Desc.allCmds (D : Desc) : List CmdD := D.groups.flatMap (·.cmds) ++ D.extras

/-- total number of variables of all commands: an upper bound for any single command -/
def Desc.vars (D : Desc) : Nat := (D.allCmds.map (·.varNum)).sum


/-! ### the constants of the measure (command machine) -/

/-- budget of one flush from a region of capacity `K`, the wait included -/
def FL (K : Nat) : Nat := 4 * K + 16

/-- steps left in a flush: phases still to come, and bytes left in the current phase (bounded) -/
def stepsLeft (K ws : Nat) (src : WSrc) (pos : Nat) : Nat :=
  (3 - ws) * (K + 4) + (match src with | .nl off => 3 - (off + pos) | .main => K - pos)

namespace Desc
def ACKF (D : Desc) : Nat := FL D.cmdCap + 1
def FLOK (D : Desc) : Nat := FL D.cmdCap + 2 + D.ACKF
def FLR (D : Desc) : Nat := FL D.cmdCap + 1
def PER (D : Desc) : Nat := 6 * (D.FLR + 1)
def LISTALL (D : Desc) : Nat := D.commandsNum * D.PER + D.ACKF + 2
def RL (D : Desc) : Nat := 1 + D.FLOK + D.ACKF
def TL (D : Desc) : Nat := 1 + D.FLOK + D.ACKF + D.LISTALL
def FMR (D : Desc) : Nat := D.vars + 2 + D.ACKF + D.RL + D.FLOK
def FMT (D : Desc) : Nat := D.vars + 2 + D.ACKF + D.TL + D.FLOK
def WL (D : Desc) : Nat := 1 + D.ACKF
def PW (D : Desc) : Nat := D.vars + 2 + D.ACKF + D.WL
def RUN (D : Desc) : Nat := 1 + D.ACKF + D.LISTALL
def FOUND (D : Desc) : Nat := 1 + D.ACKF + D.RUN + D.FMR
def SEARCH0 (D : Desc) : Nat := D.commandsNum + 2 + D.FOUND + D.ACKF
end Desc

def CmdType.stage : CmdType → Nat
  | .none => 0 | .run => 1 | .read => 2 | .write => 3 | .test => 4 | .total => 5

/-- what is left of the command list from the current command and request form -/
def listLeft (D : Desc) (index : Nat) (t : CmdType) : Nat :=
  (D.commandsNum - index - 1) * D.PER + (6 - t.stage) * (D.FLR + 1) + D.ACKF + 1

/-- measure of the state the command machine continues in after the flush -/
def aftOf (D : Desc) (a : After) (index : Nat) (t : CmdType) : Nat :=
  match a with
  | .reset => 1
  | .ok => 1 + D.ACKF
  | .fmtRead => 1 + D.FMR
  | .fmtTest => 1 + D.FMT
  | .printCmd => listLeft D index t

def aftC (D : Desc) (s : St) : Nat := aftOf D s.writeStateAfter s.index s.cmdType

/-- **the measure of the command machine** -/
def muC (D : Desc) (s : St) : Nat :=
  match s.state with
  | .error | .idle | .parsePrefix | .parseCommandChar | .waitReadAck | .waitTestAck | .parseCommandArgs | .hold => 0
  | .updateCommandState => (D.commandsNum - s.index) + 1 + D.SEARCH0
  | .searchCommand => (D.commandsNum - s.index) + 2 + D.FOUND + D.ACKF
  | .commandFound => D.FOUND
  | .commandNotFound => 1 + D.ACKF
  | .parseWriteArgs => (D.vars - s.index) + 1 + D.ACKF + D.WL
  | .formatReadArgs => (D.vars - s.index) + 1 + D.ACKF + D.RL + D.FLOK
  | .formatTestArgs => (D.vars - s.index) + 1 + D.ACKF + D.TL + D.FLOK
  | .writeLoop => D.WL
  | .readLoop => D.RL
  | .testLoop => D.TL
  | .runLoop => D.RUN
  | .flushWait => 1 + stepsLeft D.cmdCap s.writeState s.writeSrc s.position + aftC D s
  | .flushWrite => stepsLeft D.cmdCap s.writeState s.writeSrc s.position + aftC D s
  | .afterFlushReset => 1
  | .afterFlushOk => 1 + D.ACKF
  | .afterFlushFormatRead => 1 + D.FMR
  | .afterFlushFormatTest => 1 + D.FMT
  | .printCmd => listLeft D s.index s.cmdType


namespace Desc
def FLOKU (D : Desc) : Nat := FL D.unsCap + 2
def RLU (D : Desc) : Nat := 1 + D.FLOKU
def FMU (D : Desc) : Nat := D.vars + 2 + D.RLU + D.FLOKU
/-- budget of one queued event -/
def EV (D : Desc) : Nat := D.FMU + 2
end Desc

def aftU (D : Desc) (a : After) : Nat :=
  match a with
  | .reset => 1 | .ok => 1 | .printCmd => 1
  | .fmtRead => 1 + D.FMU
  | .fmtTest => 1 + D.FMU

def locU (D : Desc) (s : St) : Nat :=
  match s.ustate with
  | .idle => 0
  | .formatReadArgs => (D.vars - s.uindex) + 1 + D.RLU + D.FLOKU
  | .formatTestArgs => (D.vars - s.uindex) + 1 + D.RLU + D.FLOKU
  | .readLoop => D.RLU
  | .testLoop => D.RLU
  | .flushWait => 1 + stepsLeft D.unsCap s.uwriteState s.uwriteSrc s.uposition + aftU D s.uwriteStateAfter
  | .flushWrite => stepsLeft D.unsCap s.uwriteState s.uwriteSrc s.uposition + aftU D s.uwriteStateAfter
  | .afterFlushReset => 1
  | .afterFlushOk => 1
  | .afterFlushFormatRead => 1 + D.FMU
  | .afterFlushFormatTest => 1 + D.FMU

/-- **the measure of the unsolicited machine**: queued events, and what is left of the one in progress -/
def muU (D : Desc) (s : St) : Nat := s.rcount * D.EV + locU D s


/-- **the measure**: what both machines still have to do -/
def mu (D : Desc) (s : St) : Nat := muC D s + muU D s


/-- a bound for the command machine's measure that depends only on the descriptor -/
def Desc.MUC (D : Desc) : Nat :=
  D.commandsNum + 2 + D.SEARCH0 + FL D.cmdCap + D.FMT + D.commandsNum * D.PER + D.PER + D.ACKF + 2


end Cat
