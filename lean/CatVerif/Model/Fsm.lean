/-
  The two state machines of `cat.c`, one Lean function per C function, same names (camelCase).
  Every buffer/slot access goes through a checked accessor that raises the sticky `oob` flag.
-/
import CatVerif.Model.Pure
namespace Cat

/-! ### descriptor access -/

def Desc.commandsNum (D : Desc) : Nat := (D.groups.map (·.cmds.length)).sum

/-- `get_command_by_index`: walk the groups. -/
def cmdByIndex : List GroupD → Nat → Option CmdD
  | [], _ => none
  | g :: gs, i => if i ≥ g.cmds.length then cmdByIndex gs (i - g.cmds.length) else g.cmds[i]?

/-- `is_command_disable`: walk the groups. -/
def disabledByIndex : List GroupD → Nat → Bool
  | [], _ => false
  | g :: gs, i =>
    if i ≥ g.cmds.length then disabledByIndex gs (i - g.cmds.length)
    else if g.disable then true
    else match g.cmds[i]? with
      | some c => c.disable
      | none => false

/-- A command by identity: registered commands by table index, then the extras. -/
def Desc.cmd? (D : Desc) (id : Nat) : Option CmdD :=
  if id < D.commandsNum then cmdByIndex D.groups id else D.extras[id - D.commandsNum]?

def Desc.cmdD (D : Desc) (id : Option Nat) : CmdD :=
  match id with
  | some i => (D.cmd? i).getD default
  | none => default

def CmdD.varNum (c : CmdD) : Nat := (c.vars.getD []).length
def CmdD.varAt (c : CmdD) (i : Nat) : VarD := (c.vars.getD [])[i]?.getD default

def Desc.cmdCap (D : Desc) : Nat :=
  (Gen.get_atcmd_buf_size D.unsBuf.isSome D.bufSize (D.unsBuf.getD 0)).toNat
def Desc.unsCap (D : Desc) : Nat :=
  (Gen.get_unsolicited_buf_size D.unsBuf.isSome D.bufSize (D.unsBuf.getD 0)).toNat
def Desc.unsBase (D : Desc) : Nat := (Gen.get_unsolicited_buf_offset D.bufSize).toNat
def Desc.capOf (D : Desc) : Fsm → Nat
  | .cmd => D.cmdCap
  | .uns => D.unsCap

/-- `is_variables_access_possible` -/
def varsAccessible (c : CmdD) (a : Access) : Bool :=
  match c.vars with
  | none => false
  | some vs => vs.any (fun v => v.access == .rw || v.access == a)

/-! ### state accessors -/

namespace St

def emit (s : St) (e : Ev) : St := { s with log := s.log ++ [e] }
def chk (s : St) (c : Bool) : St := if c then s else { s with oob := true }
def chkUb (s : St) (c : Bool) : St := if c then s else { s with ub := true }

def pos (s : St) : Fsm → Nat
  | .cmd => s.position
  | .uns => s.uposition
def setPos (s : St) : Fsm → Nat → St
  | .cmd, n => { s with position := n }
  | .uns, n => { s with uposition := n }
def idx (s : St) : Fsm → Nat
  | .cmd => s.index
  | .uns => s.uindex
def setIdx (s : St) : Fsm → Nat → St
  | .cmd, n => { s with index := n }
  | .uns, n => { s with uindex := n }
def cmdOf (s : St) : Fsm → Option Nat
  | .cmd => s.cmd
  | .uns => s.ucmd

/-- byte `i` of a machine's buffer region (0 outside the backing store) -/
def getB (D : Desc) (s : St) (f : Fsm) (i : Nat) : Byte :=
  match f with
  | .cmd => s.buf.getD i 0
  | .uns => if D.unsBuf.isSome then s.ubuf.getD i 0 else s.buf.getD (D.unsBase + i) 0

/-- store into a machine's buffer region; outside the region: fault, nothing stored -/
def setB (D : Desc) (s : St) (f : Fsm) (i : Nat) (v : Byte) : St :=
  if i < D.capOf f then
    match f with
    | .cmd => { s with buf := s.buf.set i v }
    | .uns => if D.unsBuf.isSome then { s with ubuf := s.ubuf.set i v }
              else { s with buf := s.buf.set (D.unsBase + i) v }
  else { s with oob := true }

def writeB (D : Desc) (s : St) (f : Fsm) : Nat → List Byte → St
  | _, [] => s
  | i, b :: r => writeB D (setB D s f i b) f (i + 1) r

/-- the bytes of a region from `i` to the end of the region -/
def region (D : Desc) (s : St) (f : Fsm) (i : Nat) : List Byte :=
  match f with
  | .cmd => (s.buf.take D.cmdCap).drop i
  | .uns => if D.unsBuf.isSome then (s.ubuf.take D.unsCap).drop i
            else ((s.buf.drop D.unsBase).take D.unsCap).drop i

/-- the C string at the start of a region, and whether its NUL lies inside the region -/
def cstr (D : Desc) (s : St) (f : Fsm) : List Byte × Bool :=
  let r := region D s f 0
  let n := strlenOf r
  (r.take n, n < r.length)

def slotGet (s : St) (slot : Nat) : List Byte := s.mem.getD slot []

/-- store bytes at `off` in a slot, byte by byte, logging each store; outside the slot: fault -/
def slotWrite (s : St) (slot : Nat) : Nat → List Byte → St
  | _, [] => s
  | off, b :: r =>
    let cur := s.slotGet slot
    let s := if off < cur.length then
               ({ s with mem := s.mem.set slot (cur.set off b) } : St).emit (.memWrite slot off)
             else { s with oob := true }
    slotWrite s slot (off + 1) r

end St

open St

/-! ### small helpers of cat.c -/

def After.toC : After → CState
  | .reset => .afterFlushReset | .ok => .afterFlushOk | .fmtRead => .afterFlushFormatRead
  | .fmtTest => .afterFlushFormatTest | .printCmd => .printCmd
def After.toU : After → UState
  | .reset => .afterFlushReset | .ok => .afterFlushOk | .fmtRead => .afterFlushFormatRead
  | .fmtTest => .afterFlushFormatTest | .printCmd => .afterFlushReset

/-- `get_new_line_chars`: offset into "\r\n" -/
def nlOff (s : St) : Nat := if s.crFlag then 0 else 1
def nlStr (s : St) : List Byte := if s.crFlag then [13, 10] else [10]

def resetState (s : St) : St :=
  let s := if s.holdFlag == false then { s with state := .idle, crFlag := false }
           else { s with state := .hold }
  { s with cmd := none, cmdType := .none }

def unsolicitedResetState (s : St) : St :=
  { s with ucmd := none, ucmdType := .none, ustate := .idle }

/-- `start_flush_io_buffer` / `unsolicited_start_flush_io_buffer` -/
def startFlush (s : St) (f : Fsm) (a : After) : St :=
  match f with
  | .cmd => ({ s with position := 0, writeSrc := .nl (nlOff s), writeState := 0,
                      writeStateAfter := a, state := .flushWait } : St).emit (.flushStart .cmd false)
  | .uns => ({ s with uposition := 0, uwriteSrc := .nl (nlOff s), uwriteState := 0,
                      uwriteStateAfter := a, ustate := .flushWait } : St).emit (.flushStart .uns false)

def startFlushRaw (s : St) (a : After) : St :=
  ({ s with position := 0, writeSrc := .main, writeState := 2, writeStateAfter := a,
            state := .flushWait } : St).emit (.flushStart .cmd true)

/-- `strncpy(get_atcmd_buf(self), str, get_atcmd_buf_size(self))`: copy, then zero-pad to n. -/
def strncpyC (D : Desc) (s : St) (str : List Byte) : St :=
  let n := D.cmdCap
  let bytes := (str.take n) ++ List.replicate (n - str.length) 0
  writeB D s .cmd 0 bytes

def ackError (D : Desc) (s : St) : St :=
  startFlush ((strncpyC D s [69, 82, 82, 79, 82]).emit (.ack false)) .cmd .reset

def ackOk (D : Desc) (s : St) : St :=
  startFlush ((strncpyC D s [79, 75]).emit (.ack true)) .cmd .reset

def endError (D : Desc) (s : St) : Fsm → St
  | .cmd => ackError D s
  | .uns => unsolicitedResetState s

def endOk (D : Desc) (s : St) : Fsm → St
  | .cmd => ackOk D s
  | .uns => unsolicitedResetState s

/-- `print_nstring_to_buf`; the Bool is "returned 0". -/
def printN (D : Desc) (s : St) (f : Fsm) (str : List Byte) : St × Bool :=
  let p := s.pos f
  let s := s.chkUb (p ≤ D.capOf f)
  if str.length ≥ D.capOf f - p then (s, false)
  else
    let s := writeB D s f p str
    let s := s.setPos f (p + str.length)
    (setB D s f (p + str.length) 0, true)

/-- `print_format_num` with the formatted text already computed: `snprintf` stores at most
`left - 1` characters and a NUL (nothing when `left = 0`), and the call fails when the text
does not fit, leaving the truncated text behind. -/
def printFmt (D : Desc) (s : St) (f : Fsm) (txt : List Byte) : St × Bool :=
  let p := s.pos f
  let s := s.chkUb (p ≤ D.capOf f)
  let left := D.capOf f - p
  if left == 0 then (s, false)
  else
    let shown := txt.take (left - 1)
    let s := writeB D s f p (shown ++ [0])
    if txt.length ≥ left then (s, false)
    else (s.setPos f (p + txt.length), true)

/-- run a list of prints, stopping at the first failure -/
def printAll (D : Desc) (s : St) (f : Fsm) : List (List Byte) → St × Bool
  | [] => (s, true)
  | x :: r =>
    let (s, ok) := printN D s f x
    if ok then printAll D s f r else (s, false)

def setStateRL (s : St) : Fsm → St
  | .cmd => { s with state := .readLoop }
  | .uns => { s with ustate := .readLoop }
def setStateTL (s : St) : Fsm → St
  | .cmd => { s with state := .testLoop }
  | .uns => { s with ustate := .testLoop }

/-- `print_response_test` -/
def printResponseTest (D : Desc) (s : St) (f : Fsm) : St × Bool :=
  let s := s.chkUb (s.cmdOf f).isSome
  let c := D.cmdD (s.cmdOf f)
  let (s, ok) := match c.desc with
    | some d => printAll D s f [nlStr s, d]
    | none => (s, true)
  if !ok then (s, false)
  else if c.hasTest then (setStateTL s f, true)
  else (startFlush s f .ok, true)

/-- `start_processing_format_test_args` -/
def startFormatTest (D : Desc) (s : St) (f : Fsm) : St :=
  let s := s.setPos f 0
  let s := s.chkUb (s.cmdOf f).isSome
  let c := D.cmdD (s.cmdOf f)
  let (s, ok) := printAll D s f [c.name, [61]]
  if !ok then endError D s f
  else if c.vars.isSome && c.varNum > 0 then
    match f with
    | .cmd => { s with state := .formatTestArgs, index := 0 }
    | .uns => { s with ustate := .formatTestArgs, uindex := 0 }
  else
    let (s, ok) := printResponseTest D s f
    if ok then s else endError D s f

/-- `start_processing_format_read_args` -/
def startFormatRead (D : Desc) (s : St) (f : Fsm) : St :=
  let s := s.setPos f 0
  let s := s.chkUb (s.cmdOf f).isSome
  let c := D.cmdD (s.cmdOf f)
  let (s, ok) := printAll D s f [c.name, [61]]
  if !ok then endError D s f
  else if varsAccessible c .ro then
    match f with
    | .cmd => { s with state := .formatReadArgs, index := 0 }
    | .uns => { s with ustate := .formatReadArgs, uindex := 0 }
  else if !c.hasRead then endError D s f
  else setStateRL s f

/-! ### ring of unsolicited events -/

/-- the oldest queued event -/
def ringFront (s : St) : Nat × CmdType := s.ring.getD s.rhead (0, .none)

/-- `pop_unsolicited_cmd` on a non-empty ring: advance the head -/
def ringPop (D : Desc) (s : St) : St :=
  let s := s.chk (s.rhead < D.cap)
  let h := s.rhead + 1
  { s with rhead := if h ≥ D.cap then 0 else h, rcount := s.rcount - 1 }

/-- `push_unsolicited_cmd`; result is the `cat_status` -/
def pushUnsolicited (D : Desc) (s : St) (c : Nat) (t : CmdType) : St × Int :=
  if Gen.is_unsolicited_buffer_full s.rcount D.cap then (s, Gen.CAT_STATUS_ERROR_BUFFER_FULL)
  else
    let s := s.chk (s.rtail < D.cap)
    let s := { s with ring := s.ring.set s.rtail (c, t) }
    let t' := s.rtail + 1
    ({ s with rtail := if t' ≥ D.cap then 0 else t', rcount := s.rcount + 1 }, Gen.CAT_STATUS_OK)

/-- `hold_exit` -/
def holdExit (s : St) (status : Int) : St × Int :=
  if s.holdFlag == false then (s, Gen.CAT_STATUS_ERROR_NOT_HOLD)
  else ({ s with holdExitStatus := if status = Gen.CAT_STATUS_OK then 1 else -1 }, Gen.CAT_STATUS_OK)

def enableHoldState (s : St) : St :=
  { s with state := .hold, holdFlag := true, holdExitStatus := 0 }

def cmdTypeOfInt (t : Int) : CmdType :=
  if t = 0 then .run else if t = 1 then .read else if t = 2 then .write else if t = 3 then .test
  else if t = 4 then .total else .none

/-- lock / body / unlock, as every locking API function is written -/
def withMutex (D : Desc) (s : St) (lk ul : Int) (body : St → St × Int) : St × Int :=
  if D.hasMutex then
    let s := s.emit (.lock lk)
    if lk ≠ 0 then (s, Gen.CAT_STATUS_ERROR_MUTEX_LOCK)
    else
      let (s, r) := body s
      let s := s.emit (.unlock ul)
      if ul ≠ 0 then (s, Gen.CAT_STATUS_ERROR_MUTEX_UNLOCK) else (s, r)
  else body s

/-- API calls made from inside a callback, and buffer edits by read/test handlers. -/
def applyNested (D : Desc) (f : Fsm) (canEdit : Bool) : St → List Nested → St
  | s, [] => s
  | s, .trigger c t :: r =>
    let (s, ret) := withMutex D s 0 0 (fun s => pushUnsolicited D s c (cmdTypeOfInt t))
    applyNested D f canEdit (s.emit (.nestedTrig c t ret)) r
  | s, .holdExit st :: r =>
    let (s, ret) := withMutex D s 0 0 (fun s => holdExit s st)
    applyNested D f canEdit (s.emit (.nestedExit st ret)) r
  | s, .poke slot off bs :: r =>
    let cur := s.slotGet slot
    let s := if off + bs.length ≤ cur.length then
        { s with mem := s.mem.set slot (cur.take off ++ bs ++ cur.drop (off + bs.length)) } else s
    applyNested D f canEdit s r
  | s, .edit bs :: r =>
    let s := if canEdit && bs.length < D.capOf f then
        (writeB D s f 0 (bs ++ [0])).setPos f bs.length else s
    applyNested D f canEdit s r
  | s, .report n :: r =>
    let s := if canEdit then s.setPos f n else s
    applyNested D f canEdit s r

/-! ### reading input -/

/-- `read_cmd_char`: none = the read was refused. -/
def readCmdChar (s : St) (i : SvcIn) : St × Bool :=
  match i.rd with
  | none => (s.emit (.rd none), false)
  | some b =>
    let s := s.emit (.rd (some b))
    let c := if s.state != .parseCommandArgs then toUpper b else b
    ({ s with currentChar := c }, true)

def errorState (D : Desc) (s : St) (i : SvcIn) : St × Int :=
  let (s, got) := readCmdChar s i
  if !got then (s, Gen.CAT_STATUS_OK)
  else
    let s := if s.currentChar == 10 then ackError D s
             else if s.currentChar == 13 then { s with crFlag := true }
             else s
    (s, Gen.CAT_STATUS_BUSY)

def lanesInit : Byte := 1 + 4 + 16 + 64

def prepareParseCommand (D : Desc) (s : St) : St :=
  let s := writeB D s .cmd 0 (List.replicate D.cmdCap lanesInit)
  { s with index := 0, length := 0, cmdType := .run }

def parsePrefix (D : Desc) (s : St) (i : SvcIn) : St × Int :=
  let (s, got) := readCmdChar s i
  if !got then (s, Gen.CAT_STATUS_OK)
  else
    let s := if s.currentChar == 84 then { prepareParseCommand D s with state := .parseCommandChar }
             else if s.currentChar == 10 then ackError D s
             else if s.currentChar == 13 then { s with crFlag := true }
             else { s with state := .error }
    (s, Gen.CAT_STATUS_BUSY)

def prepareSearchCommand (s : St) : St :=
  { s with index := 0, partialCntr := 0, cmd := none }

def parseCommand (D : Desc) (s : St) (i : SvcIn) : St × Int :=
  let (s, got) := readCmdChar s i
  if !got then (s, Gen.CAT_STATUS_OK)
  else
    let ch := s.currentChar
    let s :=
      if ch == 10 then
        if s.length != 0 then { prepareSearchCommand s with state := .searchCommand }
        else ackOk D s
      else if ch == 13 then { s with crFlag := true }
      else if ch == 63 then
        if s.length == 0 then { s with state := .error }
        else { s with cmdType := .read, state := .waitReadAck }
      else if ch == 61 then
        if s.length == 0 then { s with state := .error }
        else { prepareSearchCommand { s with cmdType := .write } with state := .searchCommand }
      else if isNameChar ch then { s with length := s.length + 1, state := .updateCommandState }
      else { s with state := .error }
    (s, Gen.CAT_STATUS_BUSY)

/-- `get_cmd_state` -/
def getCmdState (D : Desc) (s : St) (i : Nat) : St × Nat :=
  if disabledByIndex D.groups i then (s, 0)
  else
    let s := s.chk (i / 4 < D.cmdCap)
    (s, laneGet (getB D s .cmd (i / 4)) i)

/-- `set_cmd_state` -/
def setCmdState (D : Desc) (s : St) (i : Nat) (v : Nat) : St :=
  setB D s .cmd (i / 4) (laneSet (getB D s .cmd (i / 4)) i v)

/-- the match-state update of `update_command` for the command under the cursor -/
def updateLane (D : Desc) (s : St) : St :=
  let c := (cmdByIndex D.groups s.index).getD default
  let (s, st) := getCmdState D s s.index
  if st != 0 then
    let n := c.name.length
    if s.length > n then setCmdState D s s.index 0
    else if toUpper (c.name.getD (s.length - 1) 0) != s.currentChar then setCmdState D s s.index 0
    else if s.length == n then
      let s := setCmdState D s s.index 2
      if c.implicitWrite then { s with implicitWriteFlag := true } else s
    else s
  else s

/-- the cursor advance at the end of `update_command` -/
def updateAdvance (D : Desc) (s : St) : St :=
  let s := { s with index := s.index + 1 }
  if s.index ≥ D.commandsNum then
    let s := { s with index := 0 }
    if s.implicitWriteFlag == false then { s with state := .parseCommandChar }
    else { prepareSearchCommand { s with cmdType := .write } with
             state := .searchCommand, implicitWriteFlag := false }
  else s

def updateCommand (D : Desc) (s : St) : St × Int :=
  let s := s.chkUb (s.index < D.commandsNum)
  (updateAdvance D (updateLane D s), Gen.CAT_STATUS_BUSY)

def waitReadAcknowledge (s : St) (i : SvcIn) : St × Int :=
  let (s, got) := readCmdChar s i
  if !got then (s, Gen.CAT_STATUS_OK)
  else
    let s := if s.currentChar == 10 then { prepareSearchCommand s with state := .searchCommand }
             else if s.currentChar == 13 then { s with crFlag := true }
             else { s with state := .error }
    (s, Gen.CAT_STATUS_BUSY)

def waitTestAcknowledge (D : Desc) (s : St) (i : SvcIn) : St × Int :=
  let (s, got) := readCmdChar s i
  if !got then (s, Gen.CAT_STATUS_OK)
  else
    let s := if s.currentChar == 10 then startFormatTest D s .cmd
             else if s.currentChar == 13 then { s with crFlag := true }
             else { s with state := .error }
    (s, Gen.CAT_STATUS_BUSY)

def notFoundOrError (s : St) : St :=
  { s with state := if s.currentChar == 10 then .commandNotFound else .error }

def searchCommand (D : Desc) (s : St) : St × Int :=
  let s := s.chkUb (s.index < D.commandsNum)
  let (s, st) := getCmdState D s s.index
  if st == 1 && s.cmd.isSome && s.index + 1 == D.commandsNum then (notFoundOrError s, Gen.CAT_STATUS_BUSY)
  else if st == 2 then ({ s with cmd := some s.index, state := .commandFound }, Gen.CAT_STATUS_BUSY)
  else
    let s := if st == 1 then { s with cmd := some s.index, partialCntr := s.partialCntr + 1 } else s
    let s := { s with index := s.index + 1 }
    let s :=
      if s.index ≥ D.commandsNum then
        if s.cmd.isNone then notFoundOrError s
        else if s.partialCntr == 1 then { s with state := .commandFound }
        else notFoundOrError s
      else s
    (s, Gen.CAT_STATUS_BUSY)

def commandFound (D : Desc) (s : St) : St × Int :=
  let s := s.chkUb s.cmd.isSome
  let c := D.cmdD s.cmd
  let s :=
    match s.cmdType with
    | .run =>
      if c.onlyTest then ackError D s
      else if !c.hasRun then ackError D s
      else { s with state := .runLoop }
    | .read =>
      if c.onlyTest then ackError D s
      else startFormatRead D s .cmd
    | .write =>
      { setB D { s with length := 0 } .cmd 0 0 with state := .parseCommandArgs }
    | _ => ackError D s
  (s, Gen.CAT_STATUS_BUSY)

def commandNotFound (D : Desc) (s : St) : St × Int := (ackError D s, Gen.CAT_STATUS_BUSY)

/-! ### argument parsing into variables -/

/-- store an integer of `size` bytes (`*(intN_t *)data = val`) -/
def storeInt (s : St) (v : VarD) (val : Nat) : St :=
  { slotWrite (s.chk (v.dataSize ≤ (s.slotGet v.slot).length)) v.slot 0 (leBytes v.dataSize val)
    with writeSize := v.dataSize }

/-- `validate_int_range`; Bool is "returned 0" -/
def validateIntRange (s : St) (v : VarD) (neg : Bool) (mag : Nat) : St × Bool :=
  if v.access == .ro then ({ s with writeSize := 0 }, true)
  else
    let val : Int := if neg then -(mag : Int) else mag
    let chk (bits : Nat) : St × Bool :=
      if val < -(2 ^ (bits - 1) : Int) || val > (2 ^ (bits - 1) : Int) - 1 then (s, false)
      else (storeInt s v (ofSigned bits val), true)
    if v.dataSize == 1 then chk 8
    else if v.dataSize == 2 then chk 16
    else if v.dataSize == 4 then chk 32
    else (s, false)

/-- `validate_uint_range` -/
def validateUIntRange (s : St) (v : VarD) (val : Nat) : St × Bool :=
  if v.access == .ro then ({ s with writeSize := 0 }, true)
  else
    let chk (bits : Nat) : St × Bool :=
      if val > 2 ^ bits - 1 then (s, false) else (storeInt s v val, true)
    if v.dataSize == 1 then chk 8
    else if v.dataSize == 2 then chk 16
    else if v.dataSize == 4 then chk 32
    else (s, false)

/-- the type switch of `parse_write_args`: parse the text at `position`, validate, store.
Result: new state, the C local `stat`, and whether parsing and validation succeeded. -/
def parseVarValue (D : Desc) (s : St) (v : VarD) : St × Int × Bool :=
  let txt := region D s .cmd s.position
  match v.type with
  | .intDec =>
    let r := parseIntDec txt 0 0 false 0
    let s := { (s.chk (!r.off)) with position := s.position + r.used }
    if r.ret < 0 then (s, r.ret, false)
    else let (s, ok) := validateIntRange s v r.neg r.val; (s, r.ret, ok)
  | .uintDec =>
    let r := parseUIntDec txt 0 false 0
    let s := { (s.chk (!r.off)) with position := s.position + r.used }
    if r.ret < 0 then (s, r.ret, false)
    else let (s, ok) := validateUIntRange s v r.val; (s, r.ret, ok)
  | .numHex =>
    let r := parseNumHex txt 0 0 0
    let s := { (s.chk (!r.off)) with position := s.position + r.used }
    if r.ret < 0 then (s, r.ret, false)
    else let (s, ok) := validateUIntRange s v r.val; (s, r.ret, ok)
  | .bufHex =>
    let r := parseBufHex v.dataSize txt 0 false [] 0
    let s := { (s.chk (!r.off)) with position := s.position + r.used }
    let s := if v.access == .ro then s else slotWrite s v.slot 0 r.stored
    if r.ret < 0 then (s, r.ret, false)
    else ({ s with writeSize := if v.access == .ro then 0 else r.size }, r.ret, true)
  | .bufString =>
    let r := parseBufString v.dataSize txt 0 [] 0
    let s := { (s.chk (!r.off)) with position := s.position + r.used }
    let s := if v.access == .ro then s else slotWrite s v.slot 0 r.stored
    if r.ret < 0 then (s, r.ret, false)
    else ({ s with writeSize := if v.access == .ro then 0 else r.size }, r.ret, true)

/-- the variable write callback, if the variable has one; Bool = "returned non-zero" -/
def varWriteCb (D : Desc) (s : St) (v : VarD) (i : SvcIn) : St × Bool :=
  if v.hasWrite then
    let s := s.emit (.varcb .cmd (s.cmd.getD 0) s.index true s.writeSize i.vc.ret)
    (applyNested D .cmd false s i.vc.acts, i.vc.ret != (0 : Int))
  else (s, false)

/-- one call of `parse_write_args` -/
def parseWriteArgs (D : Desc) (s : St) (i : SvcIn) : St × Int :=
  let s := s.chkUb s.cmd.isSome
  let c := D.cmdD s.cmd
  let s := s.chkUb (s.index < c.varNum)
  let v := c.varAt s.index
  let (s, stat, ok) := parseVarValue D s v
  if !ok then (ackError D s, Gen.CAT_STATUS_BUSY)
  else
    let (s, cbFail) := varWriteCb D s v i
    if cbFail then (ackError D s, Gen.CAT_STATUS_BUSY)
    else
      let s := { s with index := s.index + 1 }
      if s.index < c.varNum && stat > 0 then (s, Gen.CAT_STATUS_BUSY)
      else if stat > 0 then (ackError D s, Gen.CAT_STATUS_BUSY)
      else if c.needAll && s.index != c.varNum then (ackError D s, Gen.CAT_STATUS_BUSY)
      else if !c.hasWrite then (ackOk D s, Gen.CAT_STATUS_BUSY)
      else ({ s with state := .writeLoop }, Gen.CAT_STATUS_BUSY)

/-! ### formatting variables into the response buffer -/

/-- value of an integer variable as the formatters read it (`*(uintN_t *)var->data`) -/
def loadUInt (s : St) (v : VarD) : St × Nat :=
  let s := s.chk (v.dataSize ≤ (s.slotGet v.slot).length)
  (s, leValue ((s.slotGet v.slot).take v.dataSize))

def formatIntDecimal (D : Desc) (s : St) (f : Fsm) (v : VarD) : St × Bool :=
  if v.dataSize == 1 || v.dataSize == 2 || v.dataSize == 4 then
    let (s, raw) := loadUInt s v
    let val : Int := if v.access == .wo then 0 else toSigned (8 * v.dataSize) raw
    printFmt D s f (fmtInt val)
  else (s, false)

def formatUIntDecimal (D : Desc) (s : St) (f : Fsm) (v : VarD) : St × Bool :=
  if v.dataSize == 1 || v.dataSize == 2 || v.dataSize == 4 then
    let (s, raw) := loadUInt s v
    let val := if v.access == .wo then 0 else raw
    printFmt D s f (decDigits val)
  else (s, false)

def formatNumHexadecimal (D : Desc) (s : St) (f : Fsm) (v : VarD) : St × Bool :=
  if v.dataSize == 1 || v.dataSize == 2 || v.dataSize == 4 then
    let (s, raw) := loadUInt s v
    let val := if v.access == .wo then 0 else raw
    printFmt D s f ([48, 120] ++ hexFixed (2 * v.dataSize) val)
  else (s, false)

/-- the loop of `format_buffer_hexadecimal` -/
def printHexBytes (D : Desc) (f : Fsm) (wo : Bool) : St → List Byte → St × Bool
  | s, [] => (s, true)
  | s, b :: r =>
    let (s, ok) := printFmt D s f (hexFixed 2 (if wo then 0 else b))
    if ok then printHexBytes D f wo s r else (s, false)

def formatBufferHexadecimal (D : Desc) (s : St) (f : Fsm) (v : VarD) : St × Bool :=
  let s := s.chk (v.dataSize ≤ (s.slotGet v.slot).length)
  let bytes := (s.slotGet v.slot).take v.dataSize
  printHexBytes D f (v.access == .wo) s (bytes ++ List.replicate (v.dataSize - bytes.length) 0)

def formatBufferString (D : Desc) (s : St) (f : Fsm) (v : VarD) : St × Bool :=
  let n := if v.access == .wo then 0 else v.dataSize
  let data := (s.slotGet v.slot).take n
  -- the C loop reads buf[i] for i < n until a NUL: outside the slot only if no NUL comes first
  let s := s.chk (strlenOf data < data.length || n ≤ (s.slotGet v.slot).length)
  printAll D s f ([[34]] ++ escapeStr data ++ [[34]])

/-- `format_info_type` -/
def formatInfoType (D : Desc) (s : St) (f : Fsm) (v : VarD) : St × Bool :=
  match typeName v.type v.dataSize with
  | none => (s, false)
  | some tn =>
    let nm : List (List Byte) := match v.name with
      | some n => [n, [58]]
      | none => []
    printAll D s f ([[60]] ++ nm ++ [tn, [91], accessName v.access, [93], [62]])

/-- `next_format_var_by_fsm`: true = "returned BUSY" (more variables, or error) -/
def nextFormatVar (D : Desc) (s : St) (f : Fsm) : St × Bool :=
  let c := D.cmdD (s.cmdOf f)
  let s := s.setIdx f (s.idx f + 1)
  if s.idx f < c.varNum then
    if s.pos f ≥ D.capOf f then (endError D s f, true)
    else
      let s := setB D s f (s.pos f) 44
      (s.setPos f (s.pos f + 1), true)
  else (s, false)

/-- the variable read callback, if the variable has one; Bool = "returned non-zero" -/
def varReadCb (D : Desc) (s : St) (f : Fsm) (v : VarD) (i : SvcIn) : St × Bool :=
  let ans := match f with | .cmd => i.vc | .uns => i.vu
  if v.hasRead then
    let s := s.emit (.varcb f ((s.cmdOf f).getD 0) (s.idx f) false 0 ans.ret)
    (applyNested D f false s ans.acts, ans.ret != (0 : Int))
  else (s, false)

/-- the type switch of `format_read_args` -/
def formatVar (D : Desc) (s : St) (f : Fsm) (v : VarD) : St × Bool :=
  match v.type with
  | .intDec => formatIntDecimal D s f v
  | .uintDec => formatUIntDecimal D s f v
  | .numHex => formatNumHexadecimal D s f v
  | .bufHex => formatBufferHexadecimal D s f v
  | .bufString => formatBufferString D s f v

def formatReadArgs (D : Desc) (s : St) (f : Fsm) (i : SvcIn) : St × Int :=
  let s := s.chkUb (s.cmdOf f).isSome
  let c := D.cmdD (s.cmdOf f)
  let s := s.chkUb (s.idx f < c.varNum)
  let v := c.varAt (s.idx f)
  let (s, cbFail) := varReadCb D s f v i
  if cbFail then (endError D s f, Gen.CAT_STATUS_BUSY)
  else
    let (s, ok) := formatVar D s f v
    if !ok then (endError D s f, Gen.CAT_STATUS_BUSY)
    else
      let (s, more) := nextFormatVar D s f
      if more then (s, Gen.CAT_STATUS_BUSY)
      else if c.hasRead then (setStateRL s f, Gen.CAT_STATUS_BUSY)
      else (startFlush s f .ok, Gen.CAT_STATUS_BUSY)

def formatTestArgs (D : Desc) (s : St) (f : Fsm) : St × Int :=
  let s := s.chkUb (s.cmdOf f).isSome
  let c := D.cmdD (s.cmdOf f)
  let s := s.chkUb (s.idx f < c.varNum)
  let v := c.varAt (s.idx f)
  let (s, ok) := formatInfoType D s f v
  if !ok then (endError D s f, Gen.CAT_STATUS_BUSY)
  else
    let (s, more) := nextFormatVar D s f
    if more then (s, Gen.CAT_STATUS_BUSY)
    else
      let (s, ok) := printResponseTest D s f
      if ok then (s, Gen.CAT_STATUS_BUSY) else (endError D s f, Gen.CAT_STATUS_BUSY)

def parseCommandArgs (D : Desc) (s : St) (i : SvcIn) : St × Int :=
  let (s, got) := readCmdChar s i
  if !got then (s, Gen.CAT_STATUS_OK)
  else
    let s := s.chkUb s.cmd.isSome
    let c := D.cmdD s.cmd
    let ch := s.currentChar
    let s :=
      if ch == 10 then
        if c.onlyTest then ackError D s
        else if varsAccessible c .wo then
          -- repaired source: an embedded NUL makes the text differ from what the parsers see
          if strlenOf (region D s .cmd 0) != s.length then ackError D s
          else { s with state := .parseWriteArgs, position := 0, index := 0 }
        else if !c.hasWrite then ackError D s
        else { s with index := 0, state := .writeLoop }
      else if ch == 13 then { s with crFlag := true }
      else if s.length == 0 && ch == 63 && (c.hasTest || (c.vars.isSome && c.varNum > 0))
              && c.implicitWrite == false then
        { s with cmdType := .test, state := .waitTestAck }
      else if s.length ≥ D.cmdCap then { s with state := .error }
      else
        let s := setB D s .cmd s.length ch
        let s := { s with length := s.length + 1 }
        if s.length < D.cmdCap then setB D s .cmd s.length 0 else { s with state := .error }
    (s, Gen.CAT_STATUS_BUSY)

/-- `check_unsolicited_buffers` -/
def checkUnsolicitedBuffers (D : Desc) (s : St) : St :=
  if Gen.is_unsolicited_buffer_empty s.rcount then s
  else
    let item := ringFront s
    let s := ringPop D s
    let s := ({ s with ucmd := some item.1, ucmdType := item.2 } : St).emit (.pop item.1 item.2)
    if item.2 == .read then startFormatRead D s .uns
    else if item.2 == .test then startFormatTest D s .uns
    else s

def processIdleState (s : St) (i : SvcIn) : St × Int :=
  let (s, got) := readCmdChar s i
  if !got then (s, Gen.CAT_STATUS_OK)
  else
    let s := if s.currentChar == 65 then { s with state := .parsePrefix }
             else if s.currentChar == 10 || s.currentChar == 13 then s
             else { s with state := .error }
    (s, Gen.CAT_STATUS_BUSY)

/-! ### command list -/

def startPrintCmdList (D : Desc) (s : St) : St :=
  if D.commandsNum == 0 then ackOk D s
  else { s with index := 0, length := 0, cmdType := .none, state := .printCmd }

def cmdListNextCmd (D : Desc) (s : St) : St × Bool :=
  let s := { s with index := s.index + 1 }
  if s.index ≥ D.commandsNum then (s, false)
  else ({ s with length := 0, cmdType := .none, state := .printCmd }, true)

def printCurrentCmdFullName (D : Desc) (s : St) (suffix : List Byte) : St × Bool :=
  let c := D.cmdD s.cmd
  let (s, ok) :=
    if s.length == 0 then
      let (s, ok) := printN D s .cmd (nlStr s)
      if ok then ({ s with length := 1 }, true) else (s, false)
    else (s, true)
  if !ok then (s, false)
  else printAll D s .cmd [[65, 84], c.name, suffix, nlStr s]

/-- one request form of the current command in the command list: printed when available -/
def printCmdForm (D : Desc) (s : St) (avail : Bool) (suffix : List Byte) (next : CmdType) : St :=
  if avail then
    let s := { s with position := 0 }
    let (s, ok) := printCurrentCmdFullName D s suffix
    if !ok then ackError D s
    else { startFlushRaw s .printCmd with cmdType := next }
  else { s with cmdType := next }

def printCmdList (D : Desc) (s : St) : St :=
  let s := s.chkUb (s.index < D.commandsNum)
  let s := { s with cmd := some s.index }
  let c := D.cmdD s.cmd
  let form := printCmdForm D
  match s.cmdType with
  | .none =>
    if disabledByIndex D.groups s.index then
      let (s, more) := cmdListNextCmd D s
      if more then s else ackOk D s
    else { s with cmdType := if c.onlyTest then .test else .run }
  | .run => form s c.hasRun [] .read
  | .read => form s (c.hasRead || varsAccessible c .ro) [63] .write
  | .write => form s (c.hasWrite || varsAccessible c .wo) [61] .test
  | .test => form s (c.hasTest || (c.vars.isSome && c.varNum > 0)) [61, 63] .total
  | .total =>
    let (s, more) := cmdListNextCmd D s
    if more then s else ackOk D s

/-! ### handler loops: interpret the generated return-code tables -/

def doCall (D : Desc) (f : Fsm) (s : St) : Call → St
  | .ackOk => ackOk D s
  | .ackError => ackError D s
  | .enableHold => enableHoldState s
  | .startPrintCmdList => startPrintCmdList D s
  | .endOk => endOk D s f
  | .endError => endError D s f
  | .startFlush a => startFlush s f a
  | .startFormatRead => startFormatRead D s f
  | .startFormatTest => startFormatTest D s f
  | .holdExit ok => (holdExit s (if ok then Gen.CAT_STATUS_OK else Gen.CAT_STATUS_ERROR)).1

def doCalls (D : Desc) (f : Fsm) : St → List Call → St
  | s, [] => s
  | s, c :: r => doCalls D f (doCall D f s c) r

def processWriteLoop (D : Desc) (s : St) (i : SvcIn) : St × Int :=
  let s := s.chkUb s.cmd.isSome
  let (data, z) := ((region D s .cmd 0).take s.length, (getB D s .cmd s.length == 0 && s.length < D.cmdCap))
  let s := s.emit (.handler .cmd .write (s.cmd.getD 0) data z s.length s.index i.hc.ret)
  let s := applyNested D .cmd false s i.hc.acts
  (doCalls D .cmd s (Gen.process_write_loop i.hc.ret), Gen.CAT_STATUS_BUSY)

def processRunLoop (D : Desc) (s : St) (i : SvcIn) : St × Int :=
  let s := s.chkUb s.cmd.isSome
  let s := s.emit (.handler .cmd .run (s.cmd.getD 0) [] true 0 0 i.hc.ret)
  let s := applyNested D .cmd false s i.hc.acts
  (doCalls D .cmd s (Gen.process_run_loop i.hc.ret), Gen.CAT_STATUS_BUSY)

def processReadLoop (D : Desc) (s : St) (f : Fsm) (i : SvcIn) : St × Int :=
  let s := s.chkUb (s.cmdOf f).isSome
  let ans := match f with | .cmd => i.hc | .uns => i.hu
  let (data, z) := cstr D s f
  let s := s.emit (.handler f .read ((s.cmdOf f).getD 0) data z (s.pos f) (D.capOf f) ans.ret)
  let s := applyNested D f true s ans.acts
  (doCalls D f s (Gen.process_read_loop ans.ret f), Gen.CAT_STATUS_BUSY)

def processTestLoop (D : Desc) (s : St) (f : Fsm) (i : SvcIn) : St × Int :=
  let s := s.chkUb (s.cmdOf f).isSome
  let ans := match f with | .cmd => i.hc | .uns => i.hu
  let (data, z) := cstr D s f
  let s := s.emit (.handler f .test ((s.cmdOf f).getD 0) data z (s.pos f) (D.capOf f) ans.ret)
  let s := applyNested D f true s ans.acts
  (doCalls D f s (Gen.process_test_loop ans.ret f), Gen.CAT_STATUS_BUSY)

def processHoldState (D : Desc) (s : St) : St × Int :=
  if s.holdExitStatus == 0 then (s, Gen.CAT_STATUS_BUSY)
  else
    let s := { s with holdFlag := false }
    (if s.holdExitStatus < 0 then ackError D s else ackOk D s, Gen.CAT_STATUS_BUSY)

/-! ### emitting output -/

def processIoWriteWait (s : St) : St × Int :=
  (if s.ustate != .flushWrite then { s with state := .flushWrite } else s, Gen.CAT_STATUS_BUSY)

def unsolicitedProcessIoWriteWait (s : St) : St × Int :=
  (if s.state != .flushWrite then { s with ustate := .flushWrite } else s, Gen.CAT_STATUS_BUSY)

/-- the byte `write_buf[position]` and whether the access is inside its object -/
def writeByte (D : Desc) (s : St) (f : Fsm) : Byte × Bool :=
  let (src, p) := match f with | .cmd => (s.writeSrc, s.position) | .uns => (s.uwriteSrc, s.uposition)
  match src with
  | .nl off => (([13, 10, 0] : List Byte).getD (off + p) 0, off + p ≤ 2)
  | .main => (getB D s f p, p < D.capOf f)

/-- which part of a unit a byte belongs to (ghost; mirrors the harness's attribution) -/
def unitPart (ws : Nat) (src : WSrc) : Char :=
  if ws == 0 then 'b' else if ws == 1 then 'm' else if src == .main then 'r' else 'a'

def processIoWrite (D : Desc) (s : St) (i : SvcIn) : St × Int :=
  let (ch, inb) := writeByte D s .cmd
  let s := s.chk inb
  if ch == 0 then
    let s :=
      if s.writeState == 0 then { s with position := 0, writeSrc := .main, writeState := 1 }
      else if s.writeState == 1 then { s with position := 0, writeSrc := .nl (nlOff s), writeState := 2 }
      else if s.writeState == 2 then ({ s with state := s.writeStateAfter.toC } : St).emit (.flushEnd .cmd)
      else s
    (s, Gen.CAT_STATUS_BUSY)
  else
    let s := s.emit (.wr .cmd ch i.wr (unitPart s.writeState s.writeSrc))
    if !i.wr then (s, Gen.CAT_STATUS_BUSY)
    else ({ s with position := s.position + 1 }, Gen.CAT_STATUS_BUSY)

def unsolicitedProcessIoWrite (D : Desc) (s : St) (i : SvcIn) : St × Int :=
  let (ch, inb) := writeByte D s .uns
  let s := s.chk inb
  if ch == 0 then
    let s :=
      if s.uwriteState == 0 then { s with uposition := 0, uwriteSrc := .main, uwriteState := 1 }
      else if s.uwriteState == 1 then { s with uposition := 0, uwriteSrc := .nl (nlOff s), uwriteState := 2 }
      else if s.uwriteState == 2 then ({ s with ustate := s.uwriteStateAfter.toU } : St).emit (.flushEnd .uns)
      else s
    (s, Gen.CAT_STATUS_BUSY)
  else
    let s := s.emit (.wr .uns ch i.wr (unitPart s.uwriteState s.uwriteSrc))
    if !i.wr then (s, Gen.CAT_STATUS_BUSY)
    else ({ s with uposition := s.uposition + 1 }, Gen.CAT_STATUS_BUSY)

/-! ### the two dispatchers and `cat_service` -/

def unsolicitedEventsService (D : Desc) (s : St) (i : SvcIn) : St × Int :=
  match s.ustate with
  | .idle => (checkUnsolicitedBuffers D s, Gen.CAT_STATUS_OK)
  | .formatReadArgs => formatReadArgs D s .uns i
  | .formatTestArgs => formatTestArgs D s .uns
  | .readLoop => processReadLoop D s .uns i
  | .testLoop => processTestLoop D s .uns i
  | .flushWait => unsolicitedProcessIoWriteWait s
  | .flushWrite => unsolicitedProcessIoWrite D s i
  | .afterFlushReset => (unsolicitedResetState s, Gen.CAT_STATUS_BUSY)
  | .afterFlushOk => (endOk D s .uns, Gen.CAT_STATUS_BUSY)
  | .afterFlushFormatRead => (startFormatRead D s .uns, Gen.CAT_STATUS_BUSY)
  | .afterFlushFormatTest => (startFormatTest D s .uns, Gen.CAT_STATUS_BUSY)

def commandService (D : Desc) (s : St) (i : SvcIn) : St × Int :=
  match s.state with
  | .error => errorState D s i
  | .idle => processIdleState s i
  | .parsePrefix => parsePrefix D s i
  | .parseCommandChar => parseCommand D s i
  | .updateCommandState => updateCommand D s
  | .waitReadAck => waitReadAcknowledge s i
  | .searchCommand => searchCommand D s
  | .commandFound => commandFound D s
  | .commandNotFound => commandNotFound D s
  | .parseCommandArgs => parseCommandArgs D s i
  | .parseWriteArgs => parseWriteArgs D s i
  | .formatReadArgs => formatReadArgs D s .cmd i
  | .waitTestAck => waitTestAcknowledge D s i
  | .formatTestArgs => formatTestArgs D s .cmd
  | .writeLoop => processWriteLoop D s i
  | .readLoop => processReadLoop D s .cmd i
  | .testLoop => processTestLoop D s .cmd i
  | .runLoop => processRunLoop D s i
  | .hold => processHoldState D s
  | .flushWait => processIoWriteWait s
  | .flushWrite => processIoWrite D s i
  | .afterFlushReset => ((resetState s).emit .ackDone, Gen.CAT_STATUS_BUSY)
  | .afterFlushOk => (ackOk D s, Gen.CAT_STATUS_BUSY)
  | .afterFlushFormatRead => (startFormatRead D s .cmd, Gen.CAT_STATUS_BUSY)
  | .afterFlushFormatTest => (startFormatTest D s .cmd, Gen.CAT_STATUS_BUSY)
  | .printCmd => (printCmdList D s, Gen.CAT_STATUS_BUSY)

def CState.code : CState → Int
  | .error => -1 | .idle => 0 | .parsePrefix => 1 | .parseCommandChar => 2 | .updateCommandState => 3
  | .waitReadAck => 4 | .searchCommand => 5 | .commandFound => 6 | .commandNotFound => 7
  | .parseCommandArgs => 8 | .parseWriteArgs => 9 | .formatReadArgs => 10 | .waitTestAck => 11
  | .formatTestArgs => 12 | .writeLoop => 13 | .readLoop => 14 | .testLoop => 15 | .runLoop => 16
  | .hold => 17 | .flushWait => 18 | .flushWrite => 19 | .afterFlushReset => 20 | .afterFlushOk => 21
  | .afterFlushFormatRead => 22 | .afterFlushFormatTest => 23 | .printCmd => 24

def UState.code : UState → Int
  | .idle => 0 | .formatReadArgs => 1 | .formatTestArgs => 2 | .readLoop => 3 | .testLoop => 4
  | .flushWait => 5 | .flushWrite => 6 | .afterFlushReset => 7 | .afterFlushOk => 8
  | .afterFlushFormatRead => 9 | .afterFlushFormatTest => 10

/-- the body of `cat_service` between lock and unlock -/
def serviceBody (D : Desc) (s : St) (i : SvcIn) : St × Int :=
  let (s, us) := unsolicitedEventsService D s i
  let (s, r) := commandService D s i
  (s, if Gen.service_merge us s.ustate.code s.rcount then Gen.CAT_STATUS_BUSY else r)

def service (D : Desc) (s : St) (i : SvcIn) : St × Int :=
  withMutex D s i.lock i.unlock (fun s => serviceBody D s i)

/-! ### the rest of the public API -/

def isBusyBody (s : St) : St × Int := (s, Gen.is_busy s.state.code s.ustate.code)
def isHoldBody (s : St) : St × Int := (s, Gen.is_hold s.holdFlag)
def isFullBody (D : Desc) (s : St) : St × Int := (s, if Gen.is_unsolicited_buffer_full s.rcount D.cap then 1 else 0)

def catIsBusy (D : Desc) (s : St) (lk ul : Int) : St × Int := withMutex D s lk ul isBusyBody
def catIsHold (D : Desc) (s : St) (lk ul : Int) : St × Int := withMutex D s lk ul isHoldBody
/-- `cat_is_unsolicited_buffer_full`: the flag is computed inside the lock, converted outside -/
def catIsFull (D : Desc) (s : St) (lk ul : Int) : St × Int :=
  let (s, r) := withMutex D s lk ul (isFullBody D)
  (s, if r = 1 then Gen.CAT_STATUS_ERROR_BUFFER_FULL else r)
def catTrigger (D : Desc) (s : St) (c : Nat) (t : Int) (lk ul : Int) : St × Int :=
  withMutex D s lk ul (fun s => pushUnsolicited D s c (cmdTypeOfInt t))
def catHoldExit (D : Desc) (s : St) (st : Int) (lk ul : Int) : St × Int :=
  withMutex D s lk ul (fun s => holdExit s st)

/-- the ring contents from head, oldest first -/
def ringItems (D : Desc) (s : St) : List (Nat × CmdType) :=
  (List.range s.rcount).map (fun k => s.ring.getD ((s.rhead + k) % D.cap) (0, .none))

/-- `cat_is_unsolicited_event_buffered` (`t = none` is the wildcard) -/
def catIsBuffered (D : Desc) (s : St) (c : Nat) (t : CmdType) : Int :=
  let hit (x : Option Nat × CmdType) : Bool := x.1 == some c && (t == .none || x.2 == t)
  if hit (s.ucmd, s.ucmdType) then Gen.CAT_STATUS_BUSY
  else if (ringItems D s).any (fun x => hit (some x.1, x.2)) then Gen.CAT_STATUS_BUSY
  else Gen.CAT_STATUS_OK

def catGetProcessed (s : St) (f : Fsm) : Option Nat := s.cmdOf f

/-- `cat_init` -/
def init (D : Desc) (buf ubuf : List Byte) (mem : List (List Byte)) : St :=
  { (default : St) with
    buf := buf, ubuf := ubuf, mem := mem,
    ring := List.replicate D.cap (0, .none),
    state := .idle, crFlag := false, holdFlag := false, holdExitStatus := 0,
    implicitWriteFlag := false, cmd := none, cmdType := .none,
    rtail := 0, rhead := 0, rcount := 0, ucmd := none, ucmdType := .none, ustate := .idle }

end Cat
