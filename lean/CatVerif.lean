import CatVerif.Model.Types
import CatVerif.Gen.Source
import CatVerif.Model.Pure
import CatVerif.Model.Fsm
import CatVerif.Model.Api
import CatVerif.Proofs.Frame
