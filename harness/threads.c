/*
 * C17 runtime harness: one service thread, 1..8 producer threads calling the locking API of the
 * real library concurrently, a real pthread mutex behind cat_mutex_interface.
 * Built with -fsanitize=thread.  Checks (a) ThreadSanitizer reports nothing, (b) per producer:
 * triggers that returned OK == events delivered to that producer's read handler, (c) no event of
 * a producer is delivered more often than it was accepted at any time.
 *
 * usage: threads <producers 1..8> <triggers per producer> <seed> <mutex 1|0>
 * output: one line "threads producers=.. cap=.. accepted=.. full=.. delivered=.. lines=.. result=ok|MISMATCH"
 * exit 0 ok, 1 mismatch; TSan adds its own reports on stderr and exit code 66 (TSAN_OPTIONS).
 * With <mutex 0> the library gets no mutex: a control run showing that the detector fires.
 */
#define _GNU_SOURCE
#include <pthread.h>
#include <sched.h>
#include <stdatomic.h>
#include <stdint.h>
#include <stdio.h>
#include <stdlib.h>
#include <string.h>

#include "cat.h"

#define MAXP 8

static pthread_mutex_t mtx = PTHREAD_MUTEX_INITIALIZER;
static int m_lock(void) { return pthread_mutex_lock(&mtx) == 0 ? 0 : -1; }
static int m_unlock(void) { return pthread_mutex_unlock(&mtx) == 0 ? 0 : -1; }
static struct cat_mutex_interface mutex_if = { .lock = m_lock, .unlock = m_unlock };

/* --- service-thread private state (io callbacks and handlers run in the service thread) --- */
static const char *traffic = "AT+PING\r\nAT+V=12\nAT+V?\nat+unknown\nAT+H\nAT+V=?\n\nATX\n";
static size_t traffic_pos;
static unsigned io_seed;
static long delivered[MAXP];
static long lines_ok;
static atomic_int producers_left;

static int io_read(char *ch)
{
        if ((rand_r(&io_seed) & 3) == 0)
                return 0; /* nothing available right now */
        *ch = traffic[traffic_pos];
        traffic_pos = (traffic_pos + 1) % strlen(traffic);
        return 1;
}

static int io_write(char ch)
{
        (void)ch;
        return (rand_r(&io_seed) & 7) != 0; /* back-pressure now and then */
}

static struct cat_io_interface io_if = { .read = io_read, .write = io_write };

static uint8_t var_v;
static struct cat_variable vars_v[] = { { .type = CAT_VAR_UINT_DEC, .data = &var_v, .data_size = 1, .name = "v" } };

static cat_return_state ev_read(const struct cat_command *cmd, uint8_t *data, size_t *data_size, const size_t max_data_size)
{
        (void)data; (void)max_data_size;
        int p = cmd->name[2] - '0';
        delivered[p]++;
        *data_size = 0;
        return CAT_RETURN_STATE_OK; /* no text, no code for events */
}

static cat_return_state ping_run(const struct cat_command *cmd)
{
        (void)cmd;
        lines_ok++;
        return CAT_RETURN_STATE_OK;
}

static long holds;
static cat_return_state hold_run(const struct cat_command *cmd)
{
        (void)cmd;
        holds++;
        return CAT_RETURN_STATE_HOLD; /* released by a producer thread through cat_hold_exit */
}

#define NCMD 3
static struct cat_command cmds[NCMD + MAXP] = {
        { .name = "+PING", .run = ping_run },
        { .name = "+V", .var = vars_v, .var_num = 1 },
        { .name = "+H", .run = hold_run },
        { .name = "+E0", .read = ev_read }, { .name = "+E1", .read = ev_read },
        { .name = "+E2", .read = ev_read }, { .name = "+E3", .read = ev_read },
        { .name = "+E4", .read = ev_read }, { .name = "+E5", .read = ev_read },
        { .name = "+E6", .read = ev_read }, { .name = "+E7", .read = ev_read },
};

static uint8_t workbuf[128];
static struct cat_command_group group = { .cmd = cmds, .cmd_num = NCMD + MAXP };
static struct cat_command_group *groups[] = { &group };
static struct cat_descriptor desc = { .cmd_group = groups, .cmd_group_num = 1, .buf = workbuf, .buf_size = sizeof(workbuf) };

static struct cat_object at;

/* --- producers --- */
struct prod {
        int id;
        long n;
        unsigned seed;
        long accepted, full, other;
};

static void *producer(void *arg)
{
        struct prod *p = arg;
        const struct cat_command *cmd = &cmds[NCMD + p->id];
        for (long k = 0; k < p->n; k++) {
                cat_status r = cat_trigger_unsolicited_read(&at, cmd);
                if (r == CAT_STATUS_OK)
                        p->accepted++;
                else if (r == CAT_STATUS_ERROR_BUFFER_FULL)
                        p->full++;
                else
                        p->other++;
                switch (rand_r(&p->seed) & 7) {
                case 0: (void)cat_is_busy(&at); break;
                case 1: (void)cat_is_hold(&at); break;
                case 2: (void)cat_is_unsolicited_buffer_full(&at); break;
                case 3: (void)cat_hold_exit(&at, CAT_STATUS_OK); break; /* not held: ERROR_NOT_HOLD */
                case 4: sched_yield(); break;
                default: break;
                }
                if (r == CAT_STATUS_ERROR_BUFFER_FULL)
                        sched_yield();
        }
        atomic_fetch_sub(&producers_left, 1);
        return NULL;
}

int main(int argc, char **argv)
{
        int np = argc > 1 ? atoi(argv[1]) : 2;
        long n = argc > 2 ? atol(argv[2]) : 2000;
        unsigned seed = argc > 3 ? (unsigned)atoi(argv[3]) : 1;
        int use_mutex = argc > 4 ? atoi(argv[4]) : 1;
        if (np < 1) np = 1;
        if (np > MAXP) np = MAXP;

        io_seed = seed * 2654435761u + 17;
        cat_init(&at, &desc, &io_if, use_mutex ? &mutex_if : NULL);

        pthread_t th[MAXP];
        struct prod pr[MAXP];
        atomic_store(&producers_left, np);
        for (int i = 0; i < np; i++) {
                pr[i] = (struct prod){ .id = i, .n = n, .seed = seed * 7919u + (unsigned)i };
                pthread_create(&th[i], NULL, producer, &pr[i]);
        }

        /* service thread: this one */
        long calls = 0;
        while (atomic_load(&producers_left) > 0) {
                (void)cat_service(&at);
                calls++;
                if ((calls & 63) == 0)
                        sched_yield();
        }
        for (int i = 0; i < np; i++)
                pthread_join(th[i], NULL);
        /* drain what is still queued: input is endless, so stop feeding and flush */
        traffic = "\n";
        traffic_pos = 0;
        for (long k = 0; k < 200000; k++) {
                cat_status s = cat_service(&at);
                if (cat_is_hold(&at) == CAT_STATUS_HOLD)
                        (void)cat_hold_exit(&at, CAT_STATUS_OK); /* nobody else is left to release it */
                if (s == CAT_STATUS_OK && cat_is_busy(&at) == CAT_STATUS_OK)
                        break;
        }
        /* a few more rounds: OK must be stable and nothing may be delivered any more */
        for (int k = 0; k < 50; k++)
                (void)cat_service(&at);

        long acc = 0, full = 0, del = 0, other = 0;
        int bad = 0;
        for (int i = 0; i < np; i++) {
                acc += pr[i].accepted; full += pr[i].full; other += pr[i].other; del += delivered[i];
                if (pr[i].accepted != delivered[i]) {
                        bad = 1;
                        fprintf(stderr, "producer %d: accepted %ld delivered %ld (full %ld)\n", i, pr[i].accepted, delivered[i], pr[i].full);
                }
        }
        if (other != 0) {
                bad = 1;
                fprintf(stderr, "unexpected trigger results: %ld\n", other);
        }
        printf("threads producers=%d cap=%d per_producer=%ld seed=%u mutex=%d accepted=%ld full=%ld delivered=%ld lines=%ld holds=%ld service_calls=%ld result=%s\n",
               np, (int)CAT_UNSOLICITED_CMD_BUFFER_SIZE, n, seed, use_mutex, acc, full, del, lines_ok, holds, calls, bad ? "MISMATCH" : "ok");
        return bad;
}
