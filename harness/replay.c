/*
 * replay.c - correspondence harness for marcinbor85/cAT.
 *
 * Reads scenarios (protocol: DESIGN.md Appendix C, as implemented in tools/scn.py)
 * from stdin, builds the descriptor dynamically with exact-size heap blocks, drives the
 * real library through its public API only, and prints one trace line per operation.
 * Linked against /repo/src/cat.c from the working tree; built with
 * -DCAT_UNSOLICITED_CMD_BUFFER_SIZE=<cap> and ASan+UBSan by tools/build.py.
 */
#include "cat.h"

#include <stdio.h>
#include <stdlib.h>
#include <string.h>
#include <stdarg.h>
#include <assert.h>

#define MAXCMD 2048
#define MAXVAR 64
#define MAXSLOT 4096
#define MAXGRP 64
#define MAXANS 8
#define MAXACT 16

/* ---------- scenario description ---------- */

struct slot { uint8_t *data; uint8_t *snap; size_t len; };

struct vdesc { char *name; int type; int slot; size_t size; int acc; int cb; };

struct cdesc {
        char *name; char *desc; int hmask; int varsnull; int flags; int group;
        int nvars; struct vdesc v[MAXVAR];
        struct cat_command *ptr; struct cat_variable *vars;
};

struct gdesc { char *name; int dis; int ncmds; struct cat_command *arr; struct cat_command_group *grp; };

static struct slot slots[MAXSLOT]; static int nslots;
static struct cdesc cmds[MAXCMD]; static int ncmds;
static struct gdesc grps[MAXGRP]; static int ngrps;
static size_t buf_size; static long uns_size; static int use_mutex;
static uint8_t *wbuf, *ubuf;
static struct cat_command_group **grp_ptrs;
static struct cat_descriptor desc;
static struct cat_object obj;
static int inited;

/* input queue */
static uint8_t *inq; static size_t inq_len, inq_pos, inq_cap;

/* ---------- per-call answers ---------- */

struct action { char kind; long a, b; uint8_t *data; size_t dlen; };
struct answer { long ret; int nact; struct action act[MAXACT]; };

static struct answer hans[MAXANS]; static int nhans, hans_pos;
static struct answer vans[MAXANS]; static int nvans, vans_pos;
static int rd_ok, wr_ok; static long lk_ans, ul_ans;
/* write answers per attempt within one service call: a string of 0/1, the last digit repeats */
static char wr_pat[32] = "1"; static int wr_k;
static int ref_val = 0;        /* what a refusing io->write returns: anything but 1 is a refusal (op "refval") */
static void set_wr(const char *t) { snprintf(wr_pat, sizeof(wr_pat), "%s", (t[0] == '0' || t[0] == '1') ? t : "1"); wr_ok = wr_pat[0] == '1'; }
static int quiet;   /* suppress events (query sampling) */
static int uns_v_pending; /* the unsolicited machine will make the first variable read callback of this call */
static int depth;   /* nesting depth of API calls (0 = outer) */

/* ---------- event buffer ---------- */

static char *evbuf; static size_t evlen, evcap;

static void ev(const char *fmt, ...)
{
        va_list ap; int n;
        if (quiet) return;
        if (evcap - evlen < 8192) { evcap = evcap ? evcap * 2 : 65536; evbuf = realloc(evbuf, evcap); }
        if (evlen) evbuf[evlen++] = ';';
        va_start(ap, fmt);
        n = vsnprintf(evbuf + evlen, evcap - evlen, fmt, ap);
        va_end(ap);
        evlen += (size_t)n;
        evbuf[evlen] = 0;
}

static void evcont(const char *fmt, ...)
{
        va_list ap; int n;
        if (quiet) return;
        if (evcap - evlen < 8192) { evcap = evcap ? evcap * 2 : 65536; evbuf = realloc(evbuf, evcap); }
        va_start(ap, fmt);
        n = vsnprintf(evbuf + evlen, evcap - evlen, fmt, ap);
        va_end(ap);
        evlen += (size_t)n;
        evbuf[evlen] = 0;
}

static void evhex(const uint8_t *p, size_t n)
{
        size_t i;
        if (quiet) return;
        while (evcap - evlen < 2 * n + 16) { evcap = evcap ? evcap * 2 : 65536; evbuf = realloc(evbuf, evcap); }
        for (i = 0; i < n; i++) evlen += (size_t)sprintf(evbuf + evlen, "%02x", p[i]);
        evbuf[evlen] = 0;
}

/* ---------- helpers ---------- */

static int hexval(int c) { return (c >= '0' && c <= '9') ? c - '0' : (c >= 'a' && c <= 'f') ? c - 'a' + 10 : (c >= 'A' && c <= 'F') ? c - 'A' + 10 : -1; }

/* decode hex into exact-size malloc block; "-" gives NULL (len 0) */
static uint8_t *unhex(const char *s, size_t *len, int cstr)
{
        size_t n, i; uint8_t *p;
        if (s[0] == '-' && s[1] == 0) { *len = 0; return NULL; }
        if (s[0] == 'x') s++;
        n = strlen(s) / 2;
        p = malloc(n + (cstr ? 1 : 0) + ((n + cstr) == 0 ? 1 : 0));
        for (i = 0; i < n; i++) p[i] = (uint8_t)(hexval(s[2 * i]) * 16 + hexval(s[2 * i + 1]));
        if (cstr) p[n] = 0;
        *len = n;
        return p;
}

static int cmd_id(const struct cat_command *c)
{
        int i;
        if (c == NULL) return -1;
        for (i = 0; i < ncmds; i++) if (cmds[i].ptr == c) return i;
        return -2;
}

static void parse_answer(char *s, struct answer *a)
{
        char *tok, *save = NULL;
        a->nact = 0;
        tok = strtok_r(s, "/", &save);
        a->ret = strtol(tok, NULL, 10);
        while ((tok = strtok_r(NULL, "/", &save)) != NULL && a->nact < MAXACT) {
                struct action *ac = &a->act[a->nact++];
                ac->kind = tok[0]; ac->data = NULL; ac->dlen = 0; ac->a = ac->b = 0;
                switch (tok[0]) {
                case 'e': ac->data = unhex(tok + 2, &ac->dlen, 0); break;
                case 't': { char *q; ac->a = strtol(tok + 2, &q, 10); ac->b = strtol(q + 1, NULL, 10); break; }
                case 'x': ac->a = strtol(tok + 2, NULL, 10); break;
                case 'z': ac->a = strtol(tok + 2, NULL, 10); break;
                case 'p': { char *q; ac->a = strtol(tok + 2, &q, 10); ac->b = strtol(q + 1, &q, 10); ac->data = unhex(q + 1, &ac->dlen, 0); break; }
                default: break;
                }
        }
}

static void before_service(void)
{
        wr_k = 0;
        uns_v_pending = obj.unsolicited_fsm.state == CAT_UNSOLICITED_STATE_FORMAT_READ_ARGS
                && obj.unsolicited_fsm.var != NULL && obj.unsolicited_fsm.var->read != NULL;
}

#define MAXQ 4096
static struct answer *hq[MAXQ]; static int hq_n, hq_pos;
static struct answer *vq[MAXQ]; static int vq_n, vq_pos;
static void queue_answers(char *list, int isv)
{
        char *save = NULL, *p = strtok_r(list, ",", &save);
        while (p) {
                struct answer *a = calloc(1, sizeof(*a));
                parse_answer(p, a);
                if (isv) { if (vq_n < MAXQ) vq[vq_n++] = a; } else { if (hq_n < MAXQ) hq[hq_n++] = a; }
                p = strtok_r(NULL, ",", &save);
        }
}

static void free_answers(void)
{
        int i, j;
        for (i = 0; i < nhans; i++) for (j = 0; j < hans[i].nact; j++) free(hans[i].act[j].data);
        for (i = 0; i < nvans; i++) for (j = 0; j < vans[i].nact; j++) free(vans[i].act[j].data);
        nhans = nvans = hans_pos = vans_pos = 0;
}

static struct answer default_h = { 3, 0, {{0}} };
static struct answer default_v = { 0, 0, {{0}} };

/* persistent answer scripts (hq / vq records): consumed in invocation order across calls,
 * used when the current operation carries no h= / v= list of its own */

static struct answer *next_h(void)
{
        if (nhans > 0) return (hans_pos < nhans) ? &hans[hans_pos++] : &default_h;
        if (hq_pos < hq_n) return hq[hq_pos++];
        return &default_h;
}
static struct answer *next_v(void)
{
        if (nvans > 0) return (vans_pos < nvans) ? &vans[vans_pos++] : &default_v;
        if (vq_pos < vq_n) return vq[vq_pos++];
        return &default_v;
}
static void free_queues(void)
{
        int i, j;
        for (i = 0; i < hq_n; i++) { for (j = 0; j < hq[i]->nact; j++) free(hq[i]->act[j].data); free(hq[i]); }
        for (i = 0; i < vq_n; i++) { for (j = 0; j < vq[i]->nact; j++) free(vq[i]->act[j].data); free(vq[i]); }
        hq_n = hq_pos = vq_n = vq_pos = 0;
}

/* perform the nested actions of an answer; edit applies to (data, data_size, max) when given */
static void do_actions(struct answer *a, uint8_t *data, size_t *data_size, size_t max)
{
        int i;
        for (i = 0; i < a->nact; i++) {
                struct action *ac = &a->act[i];
                switch (ac->kind) {
                case 'e':
                        if (data != NULL && ac->dlen < max) {
                                if (ac->dlen) memcpy(data, ac->data, ac->dlen);
                                data[ac->dlen] = 0;
                                *data_size = ac->dlen;
                        }
                        break;
                case 'z':       /* the handler reports a size of its own through data_size and leaves the buffer alone */
                        if (data != NULL)
                                *data_size = (size_t)ac->a;
                        break;
                case 't': {
                        cat_status r;
                        depth++;
                        r = cat_trigger_unsolicited_event(&obj, cmds[ac->a].ptr, (cat_cmd_type)ac->b);
                        depth--;
                        ev("N:t:%ld:%ld=%d", ac->a, ac->b, (int)r);
                        break;
                }
                case 'x': {
                        cat_status r;
                        depth++;
                        r = cat_hold_exit(&obj, (cat_status)ac->a);
                        depth--;
                        ev("N:x:%ld=%d", ac->a, (int)r);
                        break;
                }
                case 'p':
                        if ((size_t)ac->b + ac->dlen <= slots[ac->a].len && ac->dlen)
                                memcpy(slots[ac->a].data + ac->b, ac->data, ac->dlen);
                        break;
                default: break;
                }
        }
}

/* ---------- callbacks ---------- */

/* attribution of an output byte (diagnostic peek into the public object): which machine is in
 * FLUSH_IO_WRITE and which part of the unit it is writing (b=leading newline, m=payload,
 * a=trailing newline, r=raw command-list line) */
static void attribution(char *out)
{
        int c = obj.state == CAT_STATE_FLUSH_IO_WRITE, u = obj.unsolicited_fsm.state == CAT_UNSOLICITED_STATE_FLUSH_IO_WRITE;
        int ws; const char *wb; const char *mainb;
        out[0] = '?'; out[1] = '?'; out[2] = 0;
        if (c == u) return;
        if (c) { ws = obj.write_state; wb = obj.write_buf; mainb = (const char *)wbuf; out[0] = 'c'; }
        else { ws = obj.unsolicited_fsm.write_state; wb = obj.unsolicited_fsm.write_buf; mainb = (const char *)(ubuf ? ubuf : wbuf + (buf_size >> 1)); out[0] = 'u'; }
        out[1] = (ws == 0) ? 'b' : (ws == 1) ? 'm' : (wb == mainb) ? 'r' : 'a';
}

static int io_write(char ch)
{
        char at[3];
        int n = (int)strlen(wr_pat), ok;
        attribution(at);
        ok = wr_pat[wr_k < n ? wr_k : n - 1] == '1';
        wr_k++;
        ev("W:%02x:%d:%s", (unsigned)(uint8_t)ch, ok, at);
        return ok ? 1 : ref_val;
}

static int io_read(char *ch)
{
        if (rd_ok && inq_pos < inq_len) {
                *ch = (char)inq[inq_pos++];
                ev("R:%02x", (unsigned)(uint8_t)*ch);
                return 1;
        }
        ev("R:-");
        return 0;
}

static int mtx_lock(void)
{
        long r = (depth == 0 && !quiet) ? lk_ans : 0;
        ev("L=%ld", r);
        return (int)r;
}

static int mtx_unlock(void)
{
        long r = (depth == 0 && !quiet) ? ul_ans : 0;
        ev("U=%ld", r);
        return (int)r;
}

static char fsm_of(const uint8_t *data)
{
        if (data == wbuf) return 'c';
        if (ubuf != NULL ? data == ubuf : data == wbuf + (buf_size >> 1)) return 'u';
        return '?';
}

static cat_return_state h_write(const struct cat_command *cmd, const uint8_t *data, const size_t data_size, const size_t args_num)
{
        struct answer *a = next_h();
        ev("H:w:%d:c:", cmd_id(cmd));
        evhex(data, data_size);
        /* z = NUL-terminated as promised */
        evcont(":z%d:%zu:%zu=%ld", data[data_size] == 0 ? 1 : 0, data_size, args_num, a->ret);
        do_actions(a, NULL, NULL, 0);
        return (cat_return_state)a->ret;
}

static cat_return_state h_rt(char kind, const struct cat_command *cmd, uint8_t *data, size_t *data_size, const size_t max)
{
        struct answer *a = next_h();
        size_t n = strnlen((const char *)data, max);
        /* the advertised capacity must be real: touch the last byte (ASan checks it) */
        if (max > 0) { volatile uint8_t *p = data; uint8_t t = p[max - 1]; p[max - 1] = t; }
        ev("H:%c:%d:%c:", kind, cmd_id(cmd), fsm_of(data));
        evhex(data, n);
        evcont(":z%d:%zu:%zu=%ld", n < max ? 1 : 0, *data_size, max, a->ret);
        do_actions(a, data, data_size, max);
        return (cat_return_state)a->ret;
}

static cat_return_state h_read(const struct cat_command *cmd, uint8_t *data, size_t *data_size, const size_t max)
{
        return h_rt('r', cmd, data, data_size, max);
}

static cat_return_state h_test(const struct cat_command *cmd, uint8_t *data, size_t *data_size, const size_t max)
{
        return h_rt('t', cmd, data, data_size, max);
}

static cat_return_state h_run(const struct cat_command *cmd)
{
        struct answer *a = next_h();
        ev("H:x:%d:c::z1:0:0=%ld", cmd_id(cmd), a->ret);
        do_actions(a, NULL, NULL, 0);
        return (cat_return_state)a->ret;
}

static void var_id(const struct cat_variable *var, int *c, int *i)
{
        int k;
        for (k = 0; k < ncmds; k++) {
                if (cmds[k].vars != NULL && var >= cmds[k].vars && var < cmds[k].vars + cmds[k].nvars) {
                        *c = k; *i = (int)(var - cmds[k].vars); return;
                }
        }
        *c = -2; *i = -2;
}

static int v_write(const struct cat_variable *var, const size_t write_size)
{
        struct answer *a = next_v();
        int c, i;
        var_id(var, &c, &i);
        ev("V:%d:%d:w:%zu:c=%ld", c, i, write_size, a->ret);
        do_actions(a, NULL, NULL, 0);
        return (int)a->ret;
}

static int v_read(const struct cat_variable *var)
{
        struct answer *a = next_v();
        int c, i;
        var_id(var, &c, &i);
        ev("V:%d:%d:r:0:%c=%ld", c, i, uns_v_pending ? 'u' : 'c', a->ret);
        uns_v_pending = 0;
        do_actions(a, NULL, NULL, 0);
        return (int)a->ret;
}

static struct cat_io_interface io_if = { io_write, io_read };
/* an application sets the descriptor's flags from whatever truthy value it has at hand (`cfg & 0x04`): the flags are `bool`, so any
   non-zero value means true */
static volatile int truthy = 4;
static int obj_fill = 0xCC;
#define FLAGVAL(cond) ((cond) ? truthy : 0)
static struct cat_mutex_interface mtx_if = { mtx_lock, mtx_unlock };
/* `mutex 2`: the interface is handed to cat_init before its functions are known and completed right after (the library keeps the pointer) */
static struct cat_mutex_interface mtx_late;

/* ---------- scenario life cycle ---------- */

static void scn_reset(void)
{
        int i, j;
        for (i = 0; i < nslots; i++) { free(slots[i].data); free(slots[i].snap); }
        for (i = 0; i < ncmds; i++) {
                free(cmds[i].name); free(cmds[i].desc);
                for (j = 0; j < cmds[i].nvars; j++) free(cmds[i].v[j].name);
                free(cmds[i].vars);
                if (cmds[i].group < 0) free(cmds[i].ptr);
        }
        for (i = 0; i < ngrps; i++) { free(grps[i].name); free(grps[i].arr); free(grps[i].grp); }
        free(grp_ptrs); grp_ptrs = NULL;
        free(wbuf); free(ubuf); wbuf = ubuf = NULL;
        free(inq); inq = NULL; inq_len = inq_pos = inq_cap = 0;
        free_queues();
        nslots = ncmds = ngrps = 0; buf_size = 0; uns_size = -1; use_mutex = 0; inited = 0;
        memset(cmds, 0, sizeof(cmds)); memset(grps, 0, sizeof(grps));
}

static void fill_cmd(struct cat_command *c, struct cdesc *d)
{
        int j;
        memset(c, 0, sizeof(*c));
        c->name = d->name;
        c->description = d->desc;
        c->write = (d->hmask & 1) ? h_write : NULL;
        c->read = (d->hmask & 2) ? h_read : NULL;
        c->run = (d->hmask & 4) ? h_run : NULL;
        c->test = (d->hmask & 8) ? h_test : NULL;
        c->need_all_vars = FLAGVAL((d->flags & 1) != 0);
        c->only_test = FLAGVAL((d->flags & 2) != 0);
        c->disable = FLAGVAL((d->flags & 4) != 0);
        c->implicit_write = FLAGVAL((d->flags & 8) != 0);
        if (d->varsnull) {
                c->var = NULL; c->var_num = (size_t)d->nvars;
                d->vars = NULL;
        } else {
                /* exact-size block (at least 1 byte so that the pointer is non-NULL) */
                d->vars = malloc(d->nvars ? sizeof(struct cat_variable) * (size_t)d->nvars : 1);
                for (j = 0; j < d->nvars; j++) {
                        struct cat_variable *v = &d->vars[j];
                        v->name = d->v[j].name;
                        v->type = (cat_var_type)d->v[j].type;
                        v->data = slots[d->v[j].slot].data;
                        v->data_size = d->v[j].size;
                        v->access = (cat_var_access)d->v[j].acc;
                        v->read = (d->v[j].cb & 1) ? v_read : NULL;
                        v->write = (d->v[j].cb & 2) ? v_write : NULL;
                }
                c->var = d->vars; c->var_num = (size_t)d->nvars;
        }
        d->ptr = c;
}

static void do_init(void)
{
        int g, i, k;
        for (g = 0; g < ngrps; g++) {
                grps[g].ncmds = 0;
                for (i = 0; i < ncmds; i++) if (cmds[i].group == g) grps[g].ncmds++;
                grps[g].arr = malloc(sizeof(struct cat_command) * (size_t)(grps[g].ncmds ? grps[g].ncmds : 1));
                k = 0;
                for (i = 0; i < ncmds; i++) if (cmds[i].group == g) fill_cmd(&grps[g].arr[k++], &cmds[i]);
                grps[g].grp = malloc(sizeof(struct cat_command_group));
                grps[g].grp->name = grps[g].name;
                grps[g].grp->cmd = grps[g].arr;
                grps[g].grp->cmd_num = (size_t)grps[g].ncmds;
                grps[g].grp->disable = FLAGVAL(grps[g].dis != 0);
        }
        for (i = 0; i < ncmds; i++) if (cmds[i].group < 0) fill_cmd(malloc(sizeof(struct cat_command)), &cmds[i]);
        grp_ptrs = malloc(sizeof(*grp_ptrs) * (size_t)(ngrps ? ngrps : 1));
        for (g = 0; g < ngrps; g++) grp_ptrs[g] = grps[g].grp;

        wbuf = malloc(buf_size ? buf_size : 1);
        memset(wbuf, 0xA5, buf_size);
        if (uns_size >= 0) { ubuf = malloc(uns_size ? (size_t)uns_size : 1); memset(ubuf, 0x5A, (size_t)uns_size); }
        desc.cmd_group = grp_ptrs;
        desc.cmd_group_num = (size_t)ngrps;
        desc.buf = wbuf;
        desc.buf_size = buf_size;
        desc.unsolicited_buf = ubuf;
        desc.unsolicited_buf_size = (uns_size >= 0) ? (size_t)uns_size : 0;
        memset(&obj, obj_fill, sizeof(obj));
        if (use_mutex == 2) {
                memset(&mtx_late, 0, sizeof(mtx_late));
                cat_init(&obj, &desc, &io_if, &mtx_late);
                mtx_late = mtx_if;
        } else
                cat_init(&obj, &desc, &io_if, use_mutex ? &mtx_if : NULL);
        inited = 1;
}

/* ---------- trace output ---------- */

static void sample_queries(char *out, size_t n)
{
        int b, h, f, pc, pu;
        quiet = 1;
        b = (int)cat_is_busy(&obj);
        h = (int)cat_is_hold(&obj);
        f = (int)cat_is_unsolicited_buffer_full(&obj);
        pc = cmd_id(cat_get_processed_command(&obj, CAT_FSM_TYPE_ATCMD));
        pu = cmd_id(cat_get_processed_command(&obj, CAT_FSM_TYPE_UNSOLICITED));
        quiet = 0;
        snprintf(out, n, "%d,%d,%d,%d,%d", b, h, f, pc, pu);
}

static unsigned long cksum(const uint8_t *p, size_t n)
{
        unsigned long h = 7; size_t i;
        for (i = 0; i < n; i++) h = (h * 131UL + p[i]) % 4294967291UL;
        return h;
}

static void emit(const char *opno, long ret)
{
        int i; char q[96]; size_t k;
        size_t ccap = ubuf ? buf_size : buf_size >> 1;
        size_t ucap = ubuf ? (size_t)uns_size : buf_size >> 1;
        const uint8_t *up = ubuf ? ubuf : wbuf + (buf_size >> 1);
        printf("%s ret=%ld ev=%s m=", opno, ret, evlen ? evbuf : "");
        for (i = 0; i < nslots; i++) {
                if (slots[i].len && memcmp(slots[i].data, slots[i].snap, slots[i].len) != 0) {
                        printf("%d:", i);
                        for (k = 0; k < slots[i].len; k++) printf("%02x", slots[i].data[k]);
                        printf(";");
                        memcpy(slots[i].snap, slots[i].data, slots[i].len);
                }
        }
        sample_queries(q, sizeof(q));
        printf(" q=%s b=%lu,%lu st=%d,%d,%zu\n", q, cksum(wbuf, ccap), cksum(up, ucap), (int)obj.state, (int)obj.unsolicited_fsm.state, obj.unsolicited_fsm.unsolicited_cmd_buffer_items_count);
        fflush(stdout);
        evlen = 0; if (evbuf) evbuf[0] = 0;
}

/* parse k=v options of an op line into the per-call answers */
static void parse_opts(char **tok, int ntok)
{
        int i;
        free_answers();
        lk_ans = ul_ans = 0;
        for (i = 0; i < ntok; i++) {
                char *t = tok[i];
                if (strncmp(t, "lk=", 3) == 0) lk_ans = strtol(t + 3, NULL, 10);
                else if (strncmp(t, "ul=", 3) == 0) ul_ans = strtol(t + 3, NULL, 10);
                else if (strncmp(t, "h=", 2) == 0) {
                        char *save = NULL, *p = strtok_r(t + 2, ",", &save);
                        while (p && nhans < MAXANS) { parse_answer(p, &hans[nhans++]); p = strtok_r(NULL, ",", &save); }
                } else if (strncmp(t, "v=", 2) == 0) {
                        char *save = NULL, *p = strtok_r(t + 2, ",", &save);
                        while (p && nvans < MAXANS) { parse_answer(p, &vans[nvans++]); p = strtok_r(NULL, ",", &save); }
                }
        }
}

static char *dupstr_hex(const char *s)
{
        size_t n;
        return (char *)unhex(s, &n, 1);
}

int main(void)
{
        char *line = NULL; size_t cap = 0; ssize_t n;
        long opno = 0;
        char opname[64];

        setvbuf(stdout, NULL, _IOFBF, 1 << 16);
        while ((n = getline(&line, &cap, stdin)) > 0) {
                char *tok[64]; int nt = 0; char *save = NULL, *p;
                while (n > 0 && (line[n - 1] == '\n' || line[n - 1] == '\r')) line[--n] = 0;
                if (n == 0 || line[0] == '#') continue;
                for (p = strtok_r(line, " ", &save); p && nt < 64; p = strtok_r(NULL, " ", &save)) tok[nt++] = p;
                if (nt == 0) continue;

                if (strcmp(tok[0], "scn") == 0) {
                        scn_reset();
                        ref_val = 0;
                        opno = 0;
                        /* what the object holds before cat_init: 0xCC (an invalid bool: UBSan reports a flag read before it is set) for
                           half of the scenarios, 0x01 (every flag reads as true, nothing is reported) for the other half */
                        { unsigned h = 0; const char *q = nt > 1 ? tok[1] : ""; while (*q) h = h * 31u + (unsigned char)*q++; obj_fill = (h & 1u) ? 0xCC : 0x01; }
                        printf("scn %s\n", nt > 1 ? tok[1] : "?");
                        fflush(stdout);
                        continue;
                }
                if (strcmp(tok[0], "expect") == 0 || strcmp(tok[0], "broken") == 0 || strcmp(tok[0], "note") == 0) continue;
                if (strcmp(tok[0], "buf") == 0) { buf_size = (size_t)strtol(tok[1], NULL, 10); uns_size = strtol(tok[2], NULL, 10); continue; }
                if (strcmp(tok[0], "mutex") == 0) { use_mutex = atoi(tok[1]); continue; }
                if (strcmp(tok[0], "slot") == 0) {
                        struct slot *s = &slots[nslots++]; size_t il; uint8_t *init;
                        s->len = (size_t)strtol(tok[1], NULL, 10);
                        s->data = malloc(s->len ? s->len : 1); s->snap = malloc(s->len ? s->len : 1);
                        memset(s->data, 0, s->len);
                        init = unhex(tok[2], &il, 0);
                        if (init) { memcpy(s->data, init, il < s->len ? il : s->len); free(init); }
                        memcpy(s->snap, s->data, s->len);
                        continue;
                }
                if (strcmp(tok[0], "group") == 0) {
                        struct gdesc *g = &grps[ngrps++];
                        g->name = dupstr_hex(tok[1]); g->dis = atoi(tok[2]);
                        continue;
                }
                if (strcmp(tok[0], "cmd") == 0) {
                        struct cdesc *c = &cmds[ncmds++];
                        c->name = dupstr_hex(tok[1]); c->desc = dupstr_hex(tok[2]);
                        c->hmask = atoi(tok[3]); c->varsnull = atoi(tok[4]); c->flags = atoi(tok[5]); c->group = atoi(tok[6]);
                        c->nvars = 0;
                        continue;
                }
                if (strcmp(tok[0], "var") == 0) {
                        struct cdesc *c = &cmds[atoi(tok[1])];
                        struct vdesc *v = &c->v[c->nvars++];
                        v->name = dupstr_hex(tok[2]); v->type = atoi(tok[3]); v->slot = atoi(tok[4]);
                        v->size = (size_t)strtol(tok[5], NULL, 10); v->acc = atoi(tok[6]); v->cb = atoi(tok[7]);
                        continue;
                }
                if (strcmp(tok[0], "init") == 0) { do_init(); continue; }

                if (strcmp(tok[0], "hq") == 0) { queue_answers(tok[1], 0); continue; }
                if (strcmp(tok[0], "vq") == 0) { queue_answers(tok[1], 1); continue; }
                if (strcmp(tok[0], "refval") == 0) { ref_val = atoi(tok[1]); if (ref_val == 1) ref_val = 0; continue; }

                /* ---- operations ---- */
                opno++;
                snprintf(opname, sizeof(opname), "%ld", opno);
                if (strcmp(tok[0], "in") == 0) {
                        size_t l; uint8_t *d = unhex(tok[1], &l, 0);
                        if (inq_len + l > inq_cap) { inq_cap = (inq_len + l) * 2 + 64; inq = realloc(inq, inq_cap); }
                        if (l) memcpy(inq + inq_len, d, l);
                        inq_len += l; free(d);
                        opno--; /* not an operation of the library: no trace line */
                        continue;
                }
                if (strcmp(tok[0], "svc") == 0) {
                        cat_status r;
                        rd_ok = atoi(tok[1]); set_wr(tok[2]);
                        parse_opts(tok + 3, nt - 3);
                        before_service();
                        r = cat_service(&obj);
                        emit(opname, (long)r);
                        continue;
                }
                if (strcmp(tok[0], "drain") == 0) {
                        long max = strtol(tok[1], NULL, 10), k; cat_status r = CAT_STATUS_BUSY;
                        char *opts[64]; int no = nt - 4, i; char *copy[64];
                        rd_ok = atoi(tok[2]); set_wr(tok[3]);
                        for (i = 0; i < no; i++) opts[i] = tok[4 + i];
                        for (k = 0; k < max && r != CAT_STATUS_OK; k++) {
                                for (i = 0; i < no; i++) copy[i] = strdup(opts[i]);
                                parse_opts(copy, no);
                                for (i = 0; i < no; i++) free(copy[i]);
                                before_service();
                                r = cat_service(&obj);
                                snprintf(opname, sizeof(opname), "%ld.%ld", opno, k);
                                emit(opname, (long)r);
                        }
                        continue;
                }
                if (strcmp(tok[0], "trig") == 0) {
                        cat_status r; int c = atoi(tok[1]), t = atoi(tok[2]);
                        parse_opts(tok + 3, nt - 3);
                        r = cat_trigger_unsolicited_event(&obj, cmds[c].ptr, (cat_cmd_type)t);
                        emit(opname, (long)r);
                        continue;
                }
                if (strcmp(tok[0], "trigr") == 0) { cat_status r; parse_opts(tok + 2, nt - 2); r = cat_trigger_unsolicited_read(&obj, cmds[atoi(tok[1])].ptr); emit(opname, (long)r); continue; }
                if (strcmp(tok[0], "trigt") == 0) { cat_status r; parse_opts(tok + 2, nt - 2); r = cat_trigger_unsolicited_test(&obj, cmds[atoi(tok[1])].ptr); emit(opname, (long)r); continue; }
                if (strcmp(tok[0], "hexit") == 0) { cat_status r; parse_opts(tok + 2, nt - 2); r = cat_hold_exit(&obj, (cat_status)atoi(tok[1])); emit(opname, (long)r); continue; }
                if (strcmp(tok[0], "busy") == 0) { cat_status r; parse_opts(tok + 1, nt - 1); r = cat_is_busy(&obj); emit(opname, (long)r); continue; }
                if (strcmp(tok[0], "hold") == 0) { cat_status r; parse_opts(tok + 1, nt - 1); r = cat_is_hold(&obj); emit(opname, (long)r); continue; }
                if (strcmp(tok[0], "full") == 0) { cat_status r; parse_opts(tok + 1, nt - 1); r = cat_is_unsolicited_buffer_full(&obj); emit(opname, (long)r); continue; }
                if (strcmp(tok[0], "buffered") == 0) {
                        cat_status r; free_answers();
                        r = cat_is_unsolicited_event_buffered(&obj, cmds[atoi(tok[1])].ptr, (cat_cmd_type)atoi(tok[2]));
                        emit(opname, (long)r); continue;
                }
                if (strcmp(tok[0], "flag") == 0) {
                        free_answers();
                        if (tok[1][0] == 'c') {
                                struct cat_command *c = cmds[atoi(tok[2])].ptr;
                                if (strcmp(tok[3], "dis") == 0) c->disable = FLAGVAL(atoi(tok[4]) != 0);
                                else c->only_test = FLAGVAL(atoi(tok[4]) != 0);
                        } else {
                                grps[atoi(tok[2])].grp->disable = FLAGVAL(atoi(tok[3]) != 0);
                        }
                        emit(opname, 0); continue;
                }
                if (strcmp(tok[0], "poke") == 0) {
                        size_t l; int s = atoi(tok[1]); size_t off = (size_t)strtol(tok[2], NULL, 10); uint8_t *d = unhex(tok[3], &l, 0);
                        free_answers();
                        if (d && off + l <= slots[s].len) memcpy(slots[s].data + off, d, l);
                        free(d);
                        emit(opname, 0); continue;
                }
                fprintf(stderr, "replay: unknown record '%s'\n", tok[0]);
                return 3;
        }
        scn_reset();
        free(line); free(evbuf);
        return 0;
}
