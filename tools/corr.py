"""Correspondence: run scenarios on implementation and model, compare traces."""
import sys, os
sys.path.insert(0, os.path.dirname(os.path.abspath(__file__)))
import lib, gen


def strip_st(raw):
    return raw.rsplit(" st=", 1)[0]


def first_divergence(ti, tm, with_state=False):
    """Compare full observable traces line by line. Returns None or a dict."""
    if ti is None or tm is None:
        return {"kind": "missing", "impl": ti is not None, "model": tm is not None}
    n = min(len(ti.lines), len(tm.lines))
    for k in range(n):
        a, b = ti.lines[k].raw, tm.lines[k].raw
        if (a if with_state else strip_st(a)) != (b if with_state else strip_st(b)):
            return {"kind": "line", "index": k, "op": ti.lines[k].op, "impl": a, "model": b}
    if ti.abort:
        return {"kind": "abort", "index": n, "abort": ti.abort, "model_faults": tm.faults}
    if tm.faults:
        return {"kind": "model-fault", "faults": tm.faults}
    if tm.errs or ti.errs:
        return {"kind": "err", "impl": ti.errs, "model": tm.errs}
    if len(ti.lines) != len(tm.lines):
        return {"kind": "length", "impl": len(ti.lines), "model": len(tm.lines)}
    return None


def compare(scns, bins, with_state=False):
    ti = lib.run_impl(scns, bins)
    tm = lib.run_model(scns)
    divs = []
    for s in scns:
        d = first_divergence(ti.get(s.sid), tm.get(s.sid), with_state)
        if d:
            d["sid"] = s.sid
            divs.append(d)
    return ti, tm, divs


if __name__ == "__main__":
    fam = sys.argv[1]
    n = int(sys.argv[2])
    seed = int(sys.argv[3]) if len(sys.argv) > 3 else 1
    bins = lib.build_harness()
    scns = gen.generate(seed, fam, n)
    ti, tm, divs = compare(scns, bins, with_state="--state" in sys.argv)
    print("scenarios", len(scns), "divergences", len(divs), "lines", sum(len(t.lines) for t in ti.values()))
    byid = {s.sid: s for s in scns}
    for d in divs[:int(os.environ.get("SHOW", "3"))]:
        print(d)
    if divs:
        d = divs[0]
        open("/tmp/w/div.scn", "w").write(byid[d["sid"]].text())
        print("first diverging scenario written to /tmp/w/div.scn")
