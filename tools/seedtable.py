#!/usr/bin/env python3
"""render the detection table of one wave of seeded changes (DESIGN.md 0.6) from seeded/*/meta.json:
   python3 tools/seedtable.py ef"""
import glob, json, os, sys

VERIF = os.path.dirname(os.path.dirname(os.path.abspath(__file__)))


def main():
    letters = sys.argv[1]
    rows = []
    for d in sorted(glob.glob(os.path.join(VERIF, "seeded", "C??-?"))):
        if d[-1] not in letters:
            continue
        m = json.load(open(os.path.join(d, "meta.json")))
        title = open(os.path.join(d, "notes.md")).readline().strip()
        det = m["detect"]
        tgt = det.get(m["breaks"], "-")
        viol = [p for p in sorted(det) if len(p) == 3 and det[p] == "VIOL"]
        nof = [p for p in sorted(det) if len(p) == 3 and det[p] == "nofail"]
        how = {"VIOL": "VIOLATION with replay", "nofail": "VIOLATION no-failing-input-found", "-": "not reported"}.get(tgt, tgt)
        rows.append("| %s | %s | %s | %s | %s |" % (m["id"], title[:170].replace("|", "/"), how, " ".join(viol) or "—", " ".join(nof) or "—"))
    print("| change | what it does | target check | concrete failing input from | proof/correspondence break only |")
    print("|---|---|---|---|---|")
    print("\n".join(rows))


if __name__ == "__main__":
    main()
