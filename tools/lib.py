"""Shared machinery: paths, builds (harness per ring capacity, Lean library and driver),
scenario objects, running implementation and model, trace parsing."""
import hashlib, json, os, re, subprocess, sys, time, fcntl, shutil

VERIF = os.path.dirname(os.path.dirname(os.path.abspath(__file__)))
REPO = os.environ.get("CAT_REPO", "/repo")
CACHE = os.path.join(VERIF, ".cache")
LEAN = os.environ.get("VERIF_LEAN") or os.path.join(VERIF, "lean")
CAPS = (1, 2, 3, 8)
NPROC = os.cpu_count() or 4


def sh(cmd, **kw):
    return subprocess.run(cmd, stdout=subprocess.PIPE, stderr=subprocess.PIPE, text=True, **kw)


def file_hash(*paths):
    h = hashlib.sha256()
    for p in paths:
        with open(p, "rb") as f:
            h.update(f.read())
        h.update(b"\0")
    return h.hexdigest()[:16]


class Lock:
    def __init__(self, name):
        os.makedirs(CACHE, exist_ok=True)
        self.path = os.path.join(CACHE, name + ".lock")

    def __enter__(self):
        self.f = open(self.path, "w")
        fcntl.flock(self.f, fcntl.LOCK_EX)
        return self

    def __exit__(self, *a):
        fcntl.flock(self.f, fcntl.LOCK_UN)
        self.f.close()


# ---------------------------------------------------------------- builds

def src_hash():
    return file_hash(os.path.join(REPO, "src/cat.c"), os.path.join(REPO, "src/cat.h"),
                     os.path.join(VERIF, "harness/replay.c"))


def build_harness(caps=CAPS):
    """Build harness binaries from the working tree; returns {cap: path}. Cached by source hash."""
    h = src_hash()
    out = {}
    d = os.path.join(CACHE, "harness-" + h)
    with Lock("harness"):
        os.makedirs(d, exist_ok=True)
        procs = []
        for cap in caps:
            exe = os.path.join(d, "replay%d" % cap)
            out[cap] = exe
            if os.path.exists(exe):
                continue
            cmd = ["gcc", "-O1", "-g", "-fsanitize=address,undefined", "-fno-sanitize-recover=all",
                   "-fno-omit-frame-pointer", "-DCAT_VERIF", "-DCAT_UNSOLICITED_CMD_BUFFER_SIZE=%d" % cap,
                   "-I", os.path.join(REPO, "src"), os.path.join(VERIF, "harness/replay.c"),
                   os.path.join(REPO, "src/cat.c"), "-o", exe + ".tmp"]
            procs.append((exe, subprocess.Popen(cmd, stdout=subprocess.PIPE, stderr=subprocess.STDOUT, text=True)))
        for exe, p in procs:
            o, _ = p.communicate()
            if p.returncode != 0:
                raise BuildError("harness build failed:\n" + o)
            os.replace(exe + ".tmp", exe)
        # drop stale harness dirs
        for n in os.listdir(CACHE):
            pth = os.path.join(CACHE, n)
            if n.startswith("harness-") and n != "harness-" + h and time.time() - os.path.getmtime(pth) > 6 * 3600:
                shutil.rmtree(pth, ignore_errors=True)
    return out


class BuildError(Exception):
    pass


def build_threads(caps=(1, 2, 8)):
    """Build the TSan thread harness (harness/threads.c) from the working tree; {cap: path}."""
    h = file_hash(os.path.join(REPO, "src/cat.c"), os.path.join(REPO, "src/cat.h"),
                  os.path.join(VERIF, "harness/threads.c"))
    d = os.path.join(CACHE, "threads-" + h)
    out = {}
    with Lock("threads"):
        os.makedirs(d, exist_ok=True)
        procs = []
        for cap in caps:
            exe = os.path.join(d, "threads%d" % cap)
            out[cap] = exe
            if os.path.exists(exe):
                continue
            cmd = ["gcc", "-O1", "-g", "-fsanitize=thread", "-fno-omit-frame-pointer",
                   "-DCAT_UNSOLICITED_CMD_BUFFER_SIZE=%d" % cap, "-I", os.path.join(REPO, "src"),
                   os.path.join(VERIF, "harness/threads.c"), os.path.join(REPO, "src/cat.c"),
                   "-o", exe + ".tmp", "-lpthread"]
            procs.append((exe, subprocess.Popen(cmd, stdout=subprocess.PIPE, stderr=subprocess.STDOUT, text=True)))
        for exe, p in procs:
            o, _ = p.communicate()
            if p.returncode != 0:
                raise BuildError("thread harness build failed:\n" + o)
            os.replace(exe + ".tmp", exe)
        for n in os.listdir(CACHE):
            pth = os.path.join(CACHE, n)
            if n.startswith("threads-") and n != "threads-" + h and time.time() - os.path.getmtime(pth) > 6 * 3600:
                shutil.rmtree(pth, ignore_errors=True)
    return out


THREADS_TIMEOUT = 90


def run_threads(bins, configs, jobs=4):
    """configs: [(cap, producers, per_producer, seed, mutex)]; returns list of dicts
    {cmd, line, races, mismatch, rc, stderr}.  Few jobs at a time: the point is contention inside
    each run, not between runs."""
    from concurrent.futures import ThreadPoolExecutor
    env = dict(os.environ, TSAN_OPTIONS="exitcode=66 halt_on_error=0 report_signal_unsafe=0")

    hung = []

    def one(c):
        cap, np_, n, seed, mx = c
        cmd = [bins[cap], str(np_), str(n), str(seed), str(mx)]
        if hung:
            # one run is already stuck: that is the finding; do not wait for the same timeout again and again
            return {"cmd": "threads%d %d %d %d %d" % (cap, np_, n, seed, mx), "line": "result=skipped (an earlier run hung)",
                    "races": 0, "mismatch": False, "rc": 0, "stderr": ""}
        try:
            p = subprocess.run(cmd, stdout=subprocess.PIPE, stderr=subprocess.PIPE, text=True, env=env, timeout=THREADS_TIMEOUT)
        except subprocess.TimeoutExpired as ex:
            # a run that never finishes: the service thread or a producer is stuck (a lock that is never released,
            # a result code that never comes) - reported as a mismatch, not as a crash of the check
            hung.append(c)
            err = ex.stderr.decode("latin1") if isinstance(ex.stderr, bytes) else (ex.stderr or "")
            return {"cmd": "threads%d %d %d %d %d" % (cap, np_, n, seed, mx), "line": "result=hung (no progress for %d s)" % THREADS_TIMEOUT,
                    "races": err.count("WARNING: ThreadSanitizer"), "mismatch": True, "rc": -9, "stderr": err[-4000:]}
        line = (p.stdout.strip().splitlines() or [""])[-1]
        return {"cmd": "threads%d %d %d %d %d" % (cap, np_, n, seed, mx), "line": line,
                "races": p.stderr.count("WARNING: ThreadSanitizer"), "mismatch": "result=ok" not in line,
                "rc": p.returncode, "stderr": p.stderr[-4000:]}
    with ThreadPoolExecutor(max_workers=jobs) as ex:
        return list(ex.map(one, configs))


def lake_build(targets=("CatVerif", "catdrv")):
    """lake build under a lock; returns (ok, output)."""
    with Lock("lake"):
        p = sh(["lake", "build"] + list(targets), cwd=LEAN)
    return p.returncode == 0, p.stdout + p.stderr


def driver_path():
    return os.path.join(LEAN, ".lake/build/bin/catdrv")


# ---------------------------------------------------------------- scenarios

def hx(b):
    if b is None:
        return "-"
    if isinstance(b, str):
        b = b.encode("latin1")
    return "x" + bytes(b).hex()


class Var:
    def __init__(self, type, slot, size, acc=0, name=None, cb=0):
        self.type, self.slot, self.size, self.acc, self.name, self.cb = type, slot, size, acc, name, cb


class Cmd:
    def __init__(self, name, desc=None, h="", vars=None, need_all=False, only_test=False, disable=False,
                 implicit=False, group=0):
        self.name = name if isinstance(name, bytes) else name.encode("latin1")
        self.desc = desc if (desc is None or isinstance(desc, bytes)) else desc.encode("latin1")
        self.h = h  # subset of "wrxt"
        self.vars = vars  # None = NULL pointer
        self.need_all, self.only_test, self.disable, self.implicit, self.group = need_all, only_test, disable, implicit, group

    def hmask(self):
        return sum(v for k, v in (("w", 1), ("r", 2), ("x", 4), ("t", 8)) if k in self.h)

    def flags(self):
        return (1 if self.need_all else 0) | (2 if self.only_test else 0) | (4 if self.disable else 0) | (8 if self.implicit else 0)


class Scenario:
    """Descriptor + operation lines. Commands must be given sorted by group (extras, group -1, last)."""

    def __init__(self, sid, cap=1, buf=64, uns=-1, mutex=0, meta=None):
        self.sid, self.cap, self.buf, self.uns, self.mutex = sid, cap, buf, uns, mutex
        self.slots = []   # (len, init bytes)
        self.groups = []  # (name, dis)
        self.cmds = []
        self.ops = []
        self.meta = meta or {}

    def slot(self, length, init=b""):
        self.slots.append((length, bytes(init)))
        return len(self.slots) - 1

    def group(self, name=None, dis=False):
        self.groups.append((name, dis))
        return len(self.groups) - 1

    def cmd(self, c):
        self.cmds.append(c)
        return len(self.cmds) - 1

    def op(self, line):
        self.ops.append(line)

    def inp(self, data):
        if isinstance(data, str):
            data = data.encode("latin1")
        self.ops.append("in " + hx(data))

    def text(self):
        assert [c.group if c.group >= 0 else 10**9 for c in self.cmds] == sorted(c.group if c.group >= 0 else 10**9 for c in self.cmds)
        L = ["scn %s cap=%d" % (self.sid, self.cap), "buf %d %d" % (self.buf, self.uns), "mutex %d" % self.mutex]
        for ln, ini in self.slots:
            L.append("slot %d %s" % (ln, hx(ini)))
        for nm, dis in self.groups:
            L.append("group %s %d" % (hx(nm) if nm is not None else "-", 1 if dis else 0))
        for c in self.cmds:
            L.append("cmd %s %s %d %d %d %d" % (hx(c.name), hx(c.desc) if c.desc is not None else "-",
                                                c.hmask(), 1 if c.vars is None else 0, c.flags(), c.group))
        for i, c in enumerate(self.cmds):
            for v in (c.vars or []):
                L.append("var %d %s %d %d %d %d %d" % (i, hx(v.name) if v.name is not None else "-", v.type, v.slot, v.size, v.acc, v.cb))
        L.append("init")
        L.extend(self.ops)
        return "\n".join(L) + "\n"


def unhx(t):
    return bytes.fromhex(t[1:] if t.startswith("x") else t)


def parse_scn_text(text):
    """Parse scenario text (possibly several scenarios) back into Scenario objects."""
    out = []
    cur = None
    for line in text.splitlines():
        t = line.split()
        if not t or t[0].startswith("#"):
            continue
        if t[0] == "scn":
            cap = 1
            for x in t[2:]:
                if x.startswith("cap="):
                    cap = int(x[4:])
            cur = Scenario(t[1], cap=cap)
            cur.extra = []
            out.append(cur)
        elif t[0] in ("expect", "broken", "note"):
            cur.extra.append(line)
        elif t[0] == "buf":
            cur.buf, cur.uns = int(t[1]), int(t[2])
        elif t[0] == "mutex":
            cur.mutex = int(t[1])
        elif t[0] == "slot":
            cur.slot(int(t[1]), b"" if t[2] == "-" else unhx(t[2]))
        elif t[0] == "group":
            cur.group(None if t[1] == "-" else unhx(t[1]), t[2] == "1")
        elif t[0] == "cmd":
            hm, fl = int(t[3]), int(t[5])
            c = Cmd(unhx(t[1]), None if t[2] == "-" else unhx(t[2]),
                    "".join(k for k, v in (("w", 1), ("r", 2), ("x", 4), ("t", 8)) if hm & v),
                    None if t[4] == "1" else [], bool(fl & 1), bool(fl & 2), bool(fl & 4), bool(fl & 8), int(t[6]))
            cur.cmd(c)
        elif t[0] == "var":
            c = cur.cmds[int(t[1])]
            if c.vars is None:
                c.vars = []
            c.vars.append(Var(int(t[3]), int(t[4]), int(t[5]), int(t[6]), None if t[2] == "-" else unhx(t[2]), int(t[7])))
        elif t[0] == "init":
            pass
        else:
            cur.ops.append(line.strip())
    return out


# ---------------------------------------------------------------- traces

LINE_RE = re.compile(r"^(\S+) ret=(-?\d+) ev=(\S*) m=(\S*) q=(\S+) b=(\S+) st=(\S+)$")


class TLine:
    __slots__ = ("op", "ret", "ev", "m", "q", "b", "st", "raw")

    def __init__(self, raw):
        m = LINE_RE.match(raw)
        if not m:
            raise ValueError("bad trace line: " + raw)
        self.raw = raw
        self.op = m.group(1)
        self.ret = int(m.group(2))
        self.ev = [e for e in m.group(3).split(";") if e]
        self.m = [x for x in m.group(4).split(";") if x]
        self.q = [int(x) for x in m.group(5).split(",")]
        self.b = [int(x) for x in m.group(6).split(",")]
        self.st = [int(x) for x in m.group(7).split(",")]


class Trace:
    """Trace of one scenario: lines, and abort/fault info."""

    def __init__(self, sid):
        self.sid = sid
        self.lines = []
        self.abort = None   # text of sanitizer / assert report (implementation)
        self.faults = []    # model FAULT lines
        self.errs = []


def split_traces(out):
    traces = {}
    order = []
    cur = None
    for raw in out.splitlines():
        if raw.startswith("scn "):
            cur = Trace(raw[4:].strip())
            traces[cur.sid] = cur
            order.append(cur.sid)
        elif cur is None:
            continue
        elif raw.startswith("FAULT"):
            cur.faults.append(raw)
        elif raw.startswith("ERR"):
            cur.errs.append(raw)
        else:
            try:
                cur.lines.append(TLine(raw))
            except ValueError:
                cur.errs.append(raw)
    return traces, order


def _chunks(scns, n):
    k = max(1, (len(scns) + n - 1) // n)
    return [scns[i:i + k] for i in range(0, len(scns), k)]


def _run_impl_chunk(exe, scns):
    """Run one harness process over scenarios; on abort, record and continue after the victim."""
    traces = {}
    todo = list(scns)
    env = dict(os.environ, ASAN_OPTIONS="detect_leaks=0:abort_on_error=0:exitcode=99", UBSAN_OPTIONS="print_stacktrace=1:exitcode=98")
    while todo:
        text = "".join(s.text() for s in todo)
        p = subprocess.run([exe], input=text, stdout=subprocess.PIPE, stderr=subprocess.PIPE, text=True, env=env, errors="replace")
        tr, order = split_traces(p.stdout)
        traces.update(tr)
        if p.returncode == 0:
            break
        # the last scenario seen in the output is the victim
        if not order:
            victim = todo[0].sid
            traces[victim] = Trace(victim)
        else:
            victim = order[-1]
        traces[victim].abort = "exit=%d\n%s" % (p.returncode, p.stderr[-4000:])
        idx = [s.sid for s in todo].index(victim)
        todo = todo[idx + 1:]
    return traces


def run_impl(scns, bins, jobs=NPROC):
    """Run scenarios on the implementation. Returns {sid: Trace}."""
    from concurrent.futures import ThreadPoolExecutor
    by_cap = {}
    for s in scns:
        by_cap.setdefault(s.cap, []).append(s)
    work = []
    for cap, ss in by_cap.items():
        for ch in _chunks(ss, max(1, jobs // max(1, len(by_cap)))):
            work.append((bins[cap], ch))
    res = {}
    with ThreadPoolExecutor(max_workers=jobs) as ex:
        for tr in ex.map(lambda w: _run_impl_chunk(*w), work):
            res.update(tr)
    return res


def run_model(scns, jobs=NPROC):
    from concurrent.futures import ThreadPoolExecutor
    drv = driver_path()

    def one(ch):
        text = "".join(s.text() for s in ch)
        p = subprocess.run([drv], input=text, stdout=subprocess.PIPE, stderr=subprocess.PIPE, text=True)
        tr, _ = split_traces(p.stdout)
        if p.returncode != 0:
            for s in ch:
                tr.setdefault(s.sid, Trace(s.sid)).errs.append("driver exit %d: %s" % (p.returncode, p.stderr[-500:]))
        return tr
    res = {}
    with ThreadPoolExecutor(max_workers=jobs) as ex:
        for tr in ex.map(one, _chunks(scns, jobs)):
            res.update(tr)
    return res


def write_json(path, obj):
    os.makedirs(os.path.dirname(path), exist_ok=True)
    tmp = path + ".tmp"
    with open(tmp, "w") as f:
        json.dump(obj, f, indent=1, sort_keys=True)
    os.replace(tmp, path)
