"""Scenario families per property (DESIGN.md 7.2), the per-property plan, metamorphic (twin-run)
oracles and scenario mutations used when a correspondence breaks."""
import random, copy
import lib, gen, oracles, props
from lib import Scenario, Cmd, Var, hx
from gen import *  # noqa


# ------------------------------------------------------------------------------- helpers

def simple_desc(rng, sid, cmds, cap=None, buf=None, uns=None, mutex=0, groups=1):
    sc = Scenario(sid, cap=cap or rng.choice([1, 2, 3, 8]), buf=buf or 128, uns=-1 if uns is None else uns, mutex=mutex)
    for g in range(groups):
        sc.group()
    for c in cmds:
        sc.cmd(c)
    return sc


def drain(sc, n=4000, extra=""):
    sc.op(("drain %d 1 1 %s" % (n, extra)).strip())


def quiesce_probe(sc):
    """after a drain: the two extra calls C15(a) looks at"""
    sc.op("svc 0 1")
    sc.op("svc 1 1")


# ------------------------------------------------------------------------------- families

def f_mixed(rng, sid):
    mode = rng.random()
    sc = gen.rand_desc(rng, sid)
    nops = rng.randint(40, 300)
    p_r = rng.choice([1.0, 1.0, 0.9, 0.6])
    p_w = rng.choice([1.0, 1.0, 0.9, 0.5])
    events = mode < 0.55 or mode > 0.93
    holds = mode >= 0.55
    for _ in range(rng.randint(1, 4)):
        sc.inp(gen.rand_line(rng, sc))
    for _ in range(nops):
        r = rng.random()
        if r < 0.74:
            o = []
            if rng.random() < 0.9:
                o.append("h=" + ",".join(_answer(rng, sc, holds, events) for _ in range(2)))
            if rng.random() < 0.5:
                o.append("v=" + ",".join(gen.rand_vanswer(rng, sc) for _ in range(2)))
            if sc.mutex and rng.random() < 0.05:
                o.append(rng.choice(["lk=1", "ul=1", "lk=-1", "ul=5"]))
            sc.op(("svc %d %d " % (rng.random() < p_r, rng.random() < p_w) + " ".join(o)).strip())
        elif r < 0.80:
            sc.inp(gen.rand_line(rng, sc))
        elif r < 0.86 and events:
            op = rng.choice(["trig %d %d" % (rng.randrange(len(sc.cmds)), rng.choice([1, 3])),
                             "trigr %d" % rng.randrange(len(sc.cmds)), "trigt %d" % rng.randrange(len(sc.cmds))])
            if sc.mutex and rng.random() < 0.1:
                op += rng.choice([" lk=1", " ul=1"])
            sc.op(op)
        elif r < 0.89:
            sc.op("hexit %d" % rng.choice([0, 0, -1, 1]) + (rng.choice([" lk=2", " ul=2"]) if sc.mutex and rng.random() < 0.1 else ""))
        elif r < 0.93:
            sc.op(rng.choice(["busy", "hold", "full"]) + (rng.choice([" lk=1", " ul=1"]) if sc.mutex and rng.random() < 0.1 else ""))
        elif r < 0.96:
            sc.op("buffered %d %d" % (rng.randrange(len(sc.cmds)), rng.choice([-1, 1, 3, 0, 2])))
        elif r < 0.975:
            if rng.random() < 0.7:
                sc.op("flag c %d %s %d" % (rng.randrange(len(sc.cmds)), rng.choice(["dis", "ot"]), rng.random() < 0.5))
            else:
                sc.op("flag g %d %d" % (rng.randrange(len(sc.groups)), rng.random() < 0.5))
        elif sc.slots:
            sl = rng.randrange(len(sc.slots))
            ln = sc.slots[sl][0]
            if ln:
                off = rng.randrange(ln)
                sc.op("poke %d %d %s" % (sl, off, hx(bytes(rng.randrange(256) for _ in range(rng.randint(1, ln - off))))))
    if holds:
        sc.op("hexit 0")
    drain(sc, 3000)
    quiesce_probe(sc)
    return sc


def _answer(rng, sc, holds, events):
    r = rng.random()
    if r < 0.6:
        ret = rng.choice([-1, 0, 3, 3, 0])
    elif r < 0.92:
        ret = rng.choice([c for c in gen.CODES if holds or c != 4])
    else:
        ret = rng.choice([-2, 8, 100, -100])
    acts = []
    if rng.random() < 0.25:
        acts.append("e:" + hx(bytes(rng.choice(b"abcdefXYZ:=,01 ") for _ in range(rng.randint(0, 12)))))
    if events and rng.random() < 0.1:
        acts.append("t:%d:%d" % (rng.randrange(len(sc.cmds)), rng.choice([1, 3])))
    if rng.random() < 0.06:
        acts.append("x:%d" % rng.choice([0, 0, -1, 1]))
    if rng.random() < 0.08 and sc.slots:
        sl = rng.randrange(len(sc.slots))
        ln = sc.slots[sl][0]
        if ln:
            off = rng.randrange(ln)
            acts.append("p:%d:%d:%s" % (sl, off, hx(bytes(rng.randrange(256) for _ in range(rng.randint(1, ln - off))))))
    return "/".join([str(ret)] + acts)


def f_lines(rng, sid):
    """eager lines, terminal constant handlers, flags toggled between lines"""
    sc = gen.rand_desc(rng, sid, mutex=0)
    for _ in range(rng.randint(3, 14)):
        if rng.random() < 0.15:
            if rng.random() < 0.7:
                sc.op("flag c %d %s %d" % (rng.randrange(len(sc.cmds)), rng.choice(["dis", "ot"]), rng.random() < 0.5))
            else:
                sc.op("flag g %d %d" % (rng.randrange(len(sc.groups)), rng.random() < 0.5))
        k = rng.randint(1, 3)
        for _ in range(k):
            sc.inp(gen.rand_line(rng, sc))
        drain(sc, 4000, "h=%s v=%s" % (rng.choice(["3", "0", "-1", "3", "7", "0/e:x4142", "3/e:x"]), rng.choice(["0", "0", "0", "1"])))
    drain(sc, 3000)
    quiesce_probe(sc)
    return sc


def f_table(rng, sid):
    """large tables (lane bytes well beyond one), many prefix relations, every suffix"""
    n = rng.choice([5, 9, 17, 33, 65, 130, 300])
    ngroups = rng.randint(1, 4)
    buf = max(16, (n + 3) // 4 + rng.randint(0, 6))
    sc = Scenario(sid, cap=rng.choice([1, 2]), buf=2 * buf if rng.random() < 0.5 else buf, uns=-1, mutex=0)
    if sc.buf == buf:
        sc.uns = 8
    for g in range(ngroups):
        sc.group(None, rng.random() < 0.1)
    pool = []
    cuts = sorted(rng.sample(range(1, n), ngroups - 1)) if ngroups > 1 else []
    bounds = [0] + cuts + [n]
    stem = [bytes(rng.choice(gen.ALPHA) for _ in range(rng.randint(1, 3))) for _ in range(max(2, n // 8))]
    for g in range(ngroups):
        for _ in range(bounds[g + 1] - bounds[g]):
            r = rng.random()
            if r < 0.6:
                nm = rng.choice(stem) + bytes(rng.choice(gen.ALPHA) for _ in range(rng.randint(0, 3)))
            elif pool and r < 0.7:
                nm = rng.choice(pool)
            else:
                nm = gen.rand_name(rng, pool)
            pool.append(nm.upper())
            nm = gen.rand_case(rng, nm)
            implicit = rng.random() < 0.04
            c = Cmd(nm, None, "w" if implicit else "wrxt", None, disable=rng.random() < 0.08, implicit=implicit, group=g,
                    only_test=rng.random() < 0.03)
            sc.cmd(c)
    for _ in range(rng.randint(4, 12)):
        c = rng.choice(sc.cmds)
        nm = c.name.upper()
        r = rng.random()
        if r < 0.5 and len(nm) > 1:
            nm = nm[:rng.randint(1, len(nm))]
        elif r < 0.6:
            nm += bytes([rng.choice(gen.ALPHA)])
        elif r < 0.65:
            nm = bytes(rng.choice(gen.ALPHA) for _ in range(rng.randint(1, 4)))
        sfx = rng.choice([b"", b"?", b"=", b"=?", b"=12", b"=AT" + nm])
        sc.inp(gen.sprinkle_cr(rng, gen.rand_case(rng, b"AT" + nm) + sfx) + b"\n")
        drain(sc, 20 * n + 600)
    return sc


def _numcmd(rng, sc, nvars=None, types=(0, 1, 2), accs=(0, 0, 0, 1, 2), name=b"+N"):
    vs = []
    for _ in range(nvars or rng.randint(1, 4)):
        t = rng.choice(types)
        size = rng.choice([1, 2, 4, 1, 2, 4, 3, 8]) if t in (0, 1, 2) else rng.choice([1, 2, 3, 4, 8, 16, 33, 64])
        ln = size + rng.choice([0, 0, 2])
        init = bytes(rng.randrange(256) for _ in range(ln))
        if t == 4:
            k = max(0, rng.randint(0, size - 1))
            if rng.random() < 0.2:
                k = size          # the string fills its variable completely: no terminator inside data_size (legal for reading)
            if rng.random() < 0.35:
                init = bytes(rng.choice([x for x in range(1, 256) if x != 13]) for _ in range(k)) + bytes(ln)
            else:
                init = bytes(rng.choice(b"abc\"\\\n,;xyz\t") for _ in range(k)) + bytes(ln)
            init = init[:ln]
        vs.append(Var(t, sc.slot(ln, init), size, rng.choice(accs), None if rng.random() < 0.5 else b"v", rng.choice([0, 0, 2, 1, 3])))
    return Cmd(name, None, rng.choice(["", "", "w"]), vs, need_all=rng.random() < 0.3)


def f_num(rng, sid):
    sc = Scenario(sid, cap=1, buf=rng.choice([64, 128, 200]) * 2, mutex=0)
    sc.group()
    for k in range(rng.randint(1, 3)):
        sc.cmd(_numcmd(rng, sc, name=b"+N%d" % k))
    ntargets = len(sc.cmds)
    if rng.random() < 0.35:
        for k in range(rng.randint(9, 40)):          # zero lanes behind a short argument text (see f_buf)
            sc.cmd(Cmd(b"+Z%d" % k, None, "x", None))
    for _ in range(rng.randint(4, 14)):
        ci = rng.randrange(ntargets)
        c = sc.cmds[ci]
        parts = []
        k = rng.choice([len(c.vars)] * 4 + [rng.randint(0, len(c.vars) + 1)])
        for i in range(k):
            v = c.vars[i] if i < len(c.vars) else c.vars[-1]
            bits = 8 * v.size if v.size in (1, 2, 4) else 16
            r = rng.random()
            if v.type == 2:
                a = gen.hex_text(rng, bits)
            else:
                a = gen.int_text(rng, bits, v.type == 0)
            if r < 0.1:
                a = gen.mutate(rng, a)
            elif r < 0.14:
                a = b"0" * rng.randint(20, 60) + a.lstrip(b"+-")
            elif r < 0.17:
                a = a + bytes(rng.choice(b"0123456789") for _ in range(rng.randint(15, 40)))
            parts.append(a)
        line = b"AT" + c.name + b"=" + b",".join(parts)
        sc.inp(gen.sprinkle_cr(rng, line) + b"\n")
        drain(sc, 1500, "v=%s" % rng.choice(["0", "0", "0", "1"]))
    return sc


def f_argevt(rng, sid):
    """WRITE lines with several arguments while unsolicited events are formatted, sent and finished in the same service
    calls: the two machines keep separate variable cursors, so every argument must still reach its own variable"""
    sc = Scenario(sid, cap=rng.choice([2, 3, 8]), buf=rng.choice([64, 128]) * 2, uns=rng.choice([-1, 40]), mutex=0)
    sc.group()
    kinds = rng.choice([(0, 1, 2), (3, 4, 1), (0, 1, 2, 3, 4)])
    sc.cmd(_numcmd(rng, sc, nvars=rng.randint(2, 5), types=kinds, accs=(0, 0, 0, 2), name=b"+W"))
    ea = sc.slot(1, b"\x07")
    eb = sc.slot(2, b"\x01\x02")
    sc.cmd(Cmd(b"+E", rng.choice([None, b"d"]), rng.choice(["", "r", "rt"]), [Var(1, ea, 1), Var(2, eb, 2)][:rng.choice([1, 2])], group=-1))
    sc.cmd(Cmd(b"+Q", None, "", None, group=-1))        # an event that fails at once
    for _ in range(rng.randint(2, 5)):
        c = sc.cmds[0]
        parts = []
        k = rng.choice([len(c.vars)] * 3 + [rng.randint(1, len(c.vars))])
        for i in range(k):
            v = c.vars[i]
            bits = 8 * v.size if v.size in (1, 2, 4) else 16
            if v.type == 2:
                a = gen.hex_text(rng, bits)
            elif v.type in (0, 1):
                a = gen.int_text(rng, bits, v.type == 0)
            elif v.type == 3:
                a = hx(bytes(rng.randrange(256) for _ in range(rng.randint(1, max(1, min(v.size, 4)))))).encode()[1:]
            else:
                a = b'"' + bytes(rng.choice(b"abcxyz ,") for _ in range(rng.randint(0, max(0, min(v.size - 1, 5))))) + b'"'
            parts.append(a)
        line = b"AT+W=" + b",".join(parts) + rng.choice([b"\n", b"\r\n"])
        ntrig = rng.randint(1, 3)
        for _ in range(rng.randint(0, 2)):
            sc.op("trig %d %d" % (rng.choice([1, 1, 2]), rng.choice([1, 3])))
            ntrig -= 1
            for _ in range(rng.randint(0, 25)):
                sc.op("svc 1 1")
        sc.inp(line)
        # an event takes about a dozen calls from trigger to its end; the arguments are parsed one per call after the LF
        for j in range(len(line) + len(c.vars) + rng.randint(0, 6)):
            sc.op("svc 1 1")
            near = j >= len(line) - rng.choice([4, 10, 16, 24])
            if ntrig > 0 and rng.random() < (0.3 if near else 0.03):
                sc.op("trig %d %d" % (rng.choice([1, 1, 2]), rng.choice([1, 3])))
                ntrig -= 1
        drain(sc, 3000)
    return sc


def f_buf(rng, sid):
    sc = Scenario(sid, cap=1, buf=rng.choice([96, 160, 300]) * 2, mutex=0)
    sc.group()
    for k in range(rng.randint(1, 3)):
        sc.cmd(_numcmd(rng, sc, types=(3, 4, 3, 4, 1), name=b"+B%d" % k))
    targets = list(sc.cmds)
    if rng.random() < 0.35:
        # a long table: the match-state lanes of the entries that do not match are zero bytes, and they lie right behind a short
        # argument text (the text overwrites the first lanes only)
        for k in range(rng.randint(9, 40)):
            sc.cmd(Cmd(b"+Z%d" % k, None, "x", None))
    for _ in range(rng.randint(4, 14)):
        c = rng.choice(targets)
        parts = []
        k = rng.choice([len(c.vars)] * 4 + [rng.randint(0, len(c.vars) + 1)])
        for i in range(k):
            v = c.vars[i] if i < len(c.vars) else c.vars[-1]
            parts.append(gen.arg_for(rng, v) if rng.random() < 0.9 else gen.arg_for(rng, v)[:rng.randint(0, 3)])     # short, often odd
        sc.inp(gen.sprinkle_cr(rng, b"AT" + c.name + b"=" + b",".join(parts)) + b"\n")
        drain(sc, 2500, "v=%s" % rng.choice(["0", "0", "0", "1"]))
    return sc


def f_cap(rng, sid):
    """argument lengths around and far beyond the buffer capacity; small capacities; raw write handler"""
    ccap = rng.randint(6, 40)
    sep = rng.random() < 0.5
    sc = Scenario(sid, cap=rng.choice([1, 2]), buf=ccap if sep else 2 * ccap + rng.randint(0, 1), uns=rng.choice([0, 6, 16, 40]) if sep else -1, mutex=0)
    sc.group()
    a = sc.slot(4, b"\1\2\3\4")
    sc.cmd(Cmd(b"+W", None, "w", None))
    sc.cmd(Cmd(b"+V", None, rng.choice(["w", ""]), [Var(4, sc.slot(64), 64), Var(1, a, 4)]))
    sc.cmd(Cmd(b"+R", b"dsc", "rt", [Var(1, a, 4), Var(3, sc.slot(8, bytes(range(8))), rng.randint(1, 8))]))
    sc.cmd(Cmd(b"D", None, "w", None, implicit=True))
    sc.cmd(Cmd(b"+EV", None, "r", [Var(4, sc.slot(16, b"hello"), 16)], group=-1))
    for _ in range(rng.randint(4, 10)):
        r = rng.random()
        n = rng.choice([0, 1, ccap - 3, ccap - 2, ccap - 1, ccap, ccap + 1, ccap + 2, 2 * ccap, 3 * ccap, rng.randint(0, 3 * ccap)])
        n = max(0, n)
        body = bytes(rng.choice([rng.randrange(1, 256), rng.choice(b"abcXYZ09,\"\\ ")]) for _ in range(n)).replace(b"\n", b"x")
        if r < 0.5:
            line = b"AT+W=" + body
        elif r < 0.65:
            line = b"ATD" + body
        elif r < 0.8:
            line = b'AT+V="' + body.replace(b'"', b"a").replace(b"\\", b"b").replace(b"\0", b"c") + b'"'
        elif r < 0.9:
            line = rng.choice([b"AT+R?", b"AT+R=?"])
        else:
            line = b"AT+W=" + body[:n // 2] + b"\r" + body[n // 2:]
        if rng.random() < 0.3:
            sc.op("trig 4 1")
        sc.inp(line + rng.choice([b"\n", b"\r\n"]))
        drain(sc, 12 * (n + 40), "h=%s" % rng.choice(["3", "0", "3"]))
    return sc


def f_ret(rng, sid):
    """return-code scripts for every handler kind, both machines; variable callbacks failing"""
    sc = Scenario(sid, cap=rng.choice([1, 2, 3, 8]), buf=128, uns=rng.choice([-1, 48]), mutex=0)
    sc.group()
    a = sc.slot(1, b"\x05")
    b = sc.slot(2, b"\x10\x20")
    vs = [Var(1, a, 1, 0, b"x", rng.choice([0, 1, 3])), Var(2, b, 2, 0, None, rng.choice([0, 1, 2]))]
    sc.cmd(Cmd(b"+H", rng.choice([None, b"help"]), "wrxt", vs[:rng.choice([1, 2, 2])]))
    sc.cmd(Cmd(b"+L", None, "x", None))
    sc.cmd(Cmd(b"+E", None, "rt", vs[:1], group=-1))
    codes = gen.CODES + [8, -2]
    L = rng.randint(1, 5)
    script = [rng.choice(codes) for _ in range(L)]
    # no HOLD on the event path (DESIGN 2.3)
    via_event = rng.random() < 0.4
    if via_event:
        script = [c if c != 4 else 3 for c in script]
    script.append(rng.choice([3, 0, -1]))
    ans = []
    for c in script:
        x = str(c)
        if rng.random() < 0.3:
            x += "/e:" + hx(bytes(rng.choice(b"abcdef12,:") for _ in range(rng.randint(0, 10))))
        ans.append(x)
    sc.op("hq " + ",".join(ans))
    if rng.random() < 0.3:
        sc.op("vq " + ",".join(rng.choice(["0", "0", "0", "1"]) for _ in range(6)))
    if via_event:
        sc.op("trig %d %d" % (rng.choice([0, 2]), rng.choice([1, 3])))
    else:
        sc.inp(b"AT+H" + rng.choice([b"", b"?", b"=7,0x12", b"=?"]) + rng.choice([b"\n", b"\r\n"]))
    drain(sc, 2500)
    if 4 in script and not via_event:
        sc.op("hexit %d" % rng.choice([0, 1]))
        drain(sc, 2500)
    return sc


def f_report(rng, sid):
    """read / test handlers that report a size of their own through `data_size` — below, at and beyond the capacity they
    were given (what `*data_size += snprintf(...)` does when the text is cut) — on the command path and on the event path,
    with shared and separate buffers; in some cases an event's unit is waiting in the other half while the command answers"""
    half = rng.choice([8, 12, 16, 24, 32])
    shared = rng.random() < 0.6
    sc = Scenario(sid, cap=rng.choice([1, 2, 8]), buf=2 * half if shared else half, uns=-1 if shared else rng.choice([half, 8, 20]), mutex=0)
    ucap = half if shared else sc.uns
    sc.group()
    a = sc.slot(1, bytes([rng.randrange(256)]))
    b = sc.slot(8, bytes(rng.choice(b"ABCDEFGH") for _ in range(8)))
    vs = [Var(rng.choice([0, 1]), a, 1, 0, None, 0), Var(4, b, 8, 0, None, 0)]
    sc.cmd(Cmd(b"+L", None, rng.choice(["rt", "r", "t", "rtx"]), vs[:rng.choice([0, 1, 2])] or None))
    sc.cmd(Cmd(b"+E", None, "rt", vs[1:], group=-1))

    def size(cap):
        return rng.choice([0, 1, cap - 1, cap, cap + 1, cap + 2, 2 * cap, 2 * cap + 1, cap + half, 3 * half, 255, 4096])

    def answers(cap, n):
        out = []
        for _ in range(n):
            x = str(rng.choice([1, 2, 0, 3, 1, 2, -1, 7, 8]))
            r = rng.random()
            if r < 0.6:
                x += "/z:%d" % size(cap)
            elif r < 0.75:
                x += "/e:" + hx(bytes(rng.choice(b"abc,") for _ in range(rng.randint(0, max(0, min(cap - 1, 6)))))) + "/z:%d" % size(cap)
            out.append(x)
        return out
    pattern = rng.choice(["line", "event", "both"])
    sc.op("hq " + ",".join(answers(half if pattern != "event" else ucap, rng.randint(1, 4)) + [rng.choice(["0", "3", "-1"])] + ["3"] * 6))
    if pattern == "line":
        sc.inp(b"AT+L" + rng.choice([b"?", b"=?"]) + rng.choice([b"\n", b"\r\n"]))
        drain(sc, 3000)
    elif pattern == "event":
        sc.op("trig %d %d" % (rng.choice([0, 1]), rng.choice([1, 3])))
        drain(sc, 3000)
    else:
        # an event is formatted and its unit waits (writes refused) while a line is answered
        sc.op("trig 1 1")
        for _ in range(rng.randint(2, 6)):
            sc.op("svc 0 0 h=3")
        sc.inp(b"AT+L" + rng.choice([b"?", b"=?"]) + b"\n")
        for _ in range(rng.randint(4, 40)):
            sc.op("svc 1 0")
        drain(sc, 3000)
    return sc


def f_wide(rng, sid):
    """sizes beyond 255 and beyond 65535 for the counters the model keeps unbounded: argument text, response text, table
    size, names sharing a prefix.  Too large for the model's list-based buffers to follow quickly: used on the implementation
    alone, in the failing-input search when a counter of `struct cat_object` is no longer a `size_t` (translator item T21)."""
    shape = rng.choice(["args16", "args8", "resp16", "resp8", "table8", "table8"])
    if shape.startswith("args"):
        big = 70000 if shape == "args16" else rng.choice([300, 600])
        lim = 65536 if shape == "args16" else 256
        sc = Scenario(sid, cap=1, buf=big, uns=64, mutex=0)
        sc.group()
        a = sc.slot(1, b"\x2a")
        sc.cmd(Cmd(b"+W", None, "w", None))
        sc.cmd(Cmd(b"+V", None, "", [Var(1, a, 1, 0, b"x", 0)]))
        for n in (rng.choice([lim + 5, lim + 1, lim + 70]), 2 * big, rng.choice([lim - 1, lim])):
            if n < big - 1 or rng.random() < 0.7:
                sc.inp(b"AT+W=" + bytes(rng.choice(b"abcXYZ01 ,") for _ in range(n)) + b"\n")
                drain(sc, n + 4000)
        sc.inp(b"AT+V=" + b"0" * (2 * lim) + b"7\n")
        drain(sc, 2 * lim + 4000)
        # a numeric argument longer than the counter's range that still fits the buffer: its value is what the digits say
        if lim + 8 < big - 1:
            sc.inp(b"AT+V=" + b"0" * (lim - 1) + rng.choice([b"12", b"37", b"255", b"100"]) + b"\n")
            drain(sc, lim + 4000)
        sc.inp(b"AT+W=ok\n")
        drain(sc, 4000)
        return sc
    if shape.startswith("resp"):
        big = 70000 if shape == "resp16" else rng.choice([300, 600])
        lim = 65536 if shape == "resp16" else 256
        sc = Scenario(sid, cap=1, buf=big, uns=64, mutex=0)
        sc.group()
        sc.cmd(Cmd(b"+R", None, "rt", None))
        n = rng.choice([lim + 3, lim + 40, big - 2])
        sc.op("hq 1/e:" + hx(bytes(rng.choice(b"abcdefghij") for _ in range(n))) + ",3,3,3")
        sc.inp(b"AT+R" + rng.choice([b"?", b"=?"]) + b"\n")
        drain(sc, 4 * big)
        return sc
    # a table of more than 255 commands: the last entries, and names that share a prefix with more than 255 others
    n = rng.choice([260, 300, 520])
    sc = Scenario(sid, cap=1, buf=2 * 400, uns=-1, mutex=0)
    sc.group()
    names = [b"+P%03d" % i for i in range(n)]
    for nm in names:
        sc.cmd(Cmd(nm, None, "x", None))
    for k in (n - 1, n - 2, 256, 255, 0, rng.randrange(n)):
        sc.inp(b"AT" + names[k] + b"\n")
        drain(sc, 40 * n)
    sc.inp(b"AT+P\n")
    drain(sc, 40 * n)
    sc.inp(b"AT+P25\n")
    drain(sc, 40 * n)
    return sc


def f_unlock(rng, sid):
    """commands and groups that are disabled when `cat_init` runs and enabled later, between lines ("service mode"): their
    names are longer than, shorter than or extend every name enabled at start; after the unlock full names, abbreviations and
    every suffix must resolve as for a table that never had the flag"""
    sc = Scenario(sid, cap=1, buf=2 * 64, uns=-1, mutex=0)
    sc.group(None, False)
    sc.group(b"svc", True)
    short = [b"+" + bytes(rng.choice(gen.ALPHA) for _ in range(rng.randint(1, 3))) for _ in range(rng.randint(1, 3))]
    for nm in short:
        sc.cmd(Cmd(nm, None, "wrxt", None, group=0))
    longs = []
    for _ in range(rng.randint(1, 2)):
        base = rng.choice(short) if rng.random() < 0.4 else b"+" + bytes(rng.choice(gen.ALPHA) for _ in range(2))
        nm = base + bytes(rng.choice(gen.ALPHA) for _ in range(rng.randint(3, 9)))
        longs.append((len(sc.cmds), nm, "c"))
        sc.cmd(Cmd(nm, None, "wrxt", None, disable=True, group=0))
    for _ in range(rng.randint(1, 2)):
        nm = b"+" + bytes(rng.choice(gen.ALPHA) for _ in range(rng.randint(5, 12)))
        longs.append((len(sc.cmds), nm, "g"))
        sc.cmd(Cmd(nm, None, "wrxt", None, group=1))

    def ask():
        for ci, nm, _ in longs:
            typed = nm.upper() if rng.random() < 0.6 else nm.upper()[:rng.randint(2, len(nm))]
            if rng.random() < 0.3:
                typed = typed.lower()
            sc.inp(b"AT" + typed + rng.choice([b"", b"?", b"=7", b"=?"]) + rng.choice([b"\n", b"\r\n"]))
            drain(sc, 1500)
        sc.inp(b"AT" + rng.choice(short) + b"\n")
        drain(sc, 1500)
    if rng.random() < 0.5:
        ask()
    for ci, nm, kind in longs:
        if kind == "c":
            sc.op("flag c %d dis 0" % ci)
    if rng.random() < 0.8:
        sc.op("flag g 1 0")
    ask()
    if rng.random() < 0.4:
        sc.op("flag g 1 1")
        ask()
    return sc


def f_rnext(rng, sid):
    """read / test handlers that answer NEXT or DATA_NEXT a few times before finishing, for commands with several
    variables: every round must start from the freshly formatted automatic text"""
    sc = Scenario(sid, cap=rng.choice([1, 2, 8]), buf=2 * rng.choice([64, 100]), uns=rng.choice([-1, 64]), mutex=0)
    sc.group()
    a = sc.slot(1, bytes([rng.randrange(256)]))
    b = sc.slot(2, bytes([rng.randrange(256), rng.randrange(256)]))
    c = sc.slot(6, b"ab\0\0\0\0")
    vs = [Var(rng.choice([0, 1]), a, 1, 0, rng.choice([None, b"x"]), rng.choice([0, 1])), Var(2, b, 2, 0, rng.choice([None, b"y"]), rng.choice([0, 1, 2])),
          Var(4, c, 6, 0, b"s", rng.choice([0, 1]))]
    sc.cmd(Cmd(b"+H", rng.choice([None, b"help"]), rng.choice(["rt", "wrt", "r", "t"]), vs[:rng.choice([2, 3])]))
    sc.cmd(Cmd(b"+E", None, "rt", vs[:2], group=-1))
    rounds = [rng.choice(["2", "1", "2", "2/e:x" + hx(bytes(rng.choice(b"abc,:") for _ in range(rng.randint(1, 6))))]) for _ in range(rng.randint(1, 3))]
    sc.op("hq " + ",".join(rounds + [rng.choice(["0", "3", "-1"])] + ["3"] * 6))
    if rng.random() < 0.3:
        sc.op("trig %d %d" % (rng.choice([0, 1]), rng.choice([1, 3])))
    else:
        sc.inp(b"AT+H" + rng.choice([b"?", b"=?"]) + rng.choice([b"\n", b"\r\n"]))
    drain(sc, 4000)
    return sc


def f_listevt(rng, sid):
    """a command list (PRINT_CMD_LIST_OK) while unsolicited events arrive: the events are triggered some calls after
    the line has been fed, so that they become ready between two list entries"""
    sc = Scenario(sid, cap=rng.choice([2, 3, 8]), buf=2 * rng.choice([48, 64, 100]), uns=rng.choice([-1, 48]), mutex=0)
    sc.group()
    a = sc.slot(1, b"\x05")
    ncmd = rng.randint(1, 4)
    for i in range(ncmd):
        h = "".join(x for x in "wrxt" if rng.random() < 0.7) or "x"
        sc.cmd(Cmd(b"+C%d" % i, None, h, [Var(1, a, 1)] if rng.random() < 0.5 else None))
    sc.cmd(Cmd(b"#LS", None, "x", None))
    sc.cmd(Cmd(b"+EV", None, "", [Var(1, a, 1, 0, b"v", 1)], group=-1))
    sc.op("hq " + ",".join(["7"] * 40))
    sc.inp(b"AT#LS" + rng.choice([b"\n", b"\r\n"]))
    for _ in range(rng.randint(8, 40)):
        sc.op("svc 1 %s" % _wpat(rng, 0.8))
    for _ in range(rng.randint(1, 2)):
        sc.op("trig %d 1" % (ncmd + 1))
        for _ in range(rng.randint(0, 12)):
            sc.op("svc 1 %s" % _wpat(rng, 0.8))
    drain(sc, 8000)
    return sc


def f_sched(rng, sid):
    """event-free lines under adversarial read/write readiness; constant answers via scripts"""
    sc = gen.rand_desc(rng, sid, mutex=0, max_cmds=5)
    total = b""
    for _ in range(rng.randint(1, 4)):
        ln = gen.rand_line(rng, sc)
        if rng.random() < 0.2 and ln[:1] in (b"A", b"a"):
            ln = ln[:1] + b"\r" + ln[1:]
        if rng.random() < 0.4 and ln.endswith(b"\n") and not ln.endswith(b"\r\n"):
            ln = ln[:-1] + b"\r\n"
        total += ln
    sc.meta["input"] = total
    if rng.random() < 0.3:
        sc.op("refval %d" % rng.choice([-1, -11, 2, 255]))     # a driver may refuse with any value but 1
    sc.op("hq " + ",".join(rng.choice(["3", "0", "-1", "1", "2", "3", "0/e:x6162", "7"]) for _ in range(8)) + ",3,3,3,3,3,3,3,3")
    sc.op("vq " + ",".join(rng.choice(["0", "0", "0", "0", "1"]) for _ in range(12)))
    # feed at random split points (one scenario in three: byte by byte, so every boundary is a split)
    pos = 0
    bytewise = rng.random() < 0.34
    while pos < len(total):
        k = 1 if bytewise else rng.randint(1, max(1, len(total) // 3))
        sc.inp(total[pos:pos + k])
        pos += k
        for _ in range(rng.randint(2, 6) if bytewise else rng.randint(0, 25)):
            sc.op("svc %d %s" % (rng.random() < 0.7, _wpat(rng, 0.7)))
    for _ in range(rng.randint(0, 60)):
        sc.op("svc %d %s" % (rng.random() < 0.5, _wpat(rng, 0.5)))
    drain(sc, 6000)
    return sc


def _wpat(rng, p):
    """answer(s) of io->write in one service call: usually one digit; sometimes a per-attempt pattern, so
    that code making several write attempts in one call meets a refusal between two accepted bytes"""
    if rng.random() < 0.25:
        return rng.choice(["10", "01", "110", "101", "011", "100"])
    return "1" if rng.random() < p else "0"


def _evcmds(rng, sc):
    a = sc.slot(1, b"\x05")
    b = sc.slot(8, b"ev\0\0\0\0\0\0")
    c = sc.slot(2, b"\x01\x02")
    sc.cmd(Cmd(b"+U", None, rng.choice(["", "r"]), [Var(1, a, 1)], group=0))
    sc.cmd(Cmd(b"+S", rng.choice([None, b"dsc"]), rng.choice(["", "t", "rt"]), [Var(4, b, 8, 0, b"s"), Var(2, c, 2)], group=0))
    sc.cmd(Cmd(b"+X", None, "wxrt", None, group=0))
    sc.cmd(Cmd(b"+BAD", None, "", None, group=-1))          # nothing readable: fails immediately
    sc.cmd(Cmd(b"+LONGNAMEEVENTLONGNAMEEVENT", None, "r", [Var(3, sc.slot(16), 16)], group=-1))
    sc.cmd(Cmd(b"+T", b"about", "t", None, group=-1))
    # a notification-only command: the host may only ask `=?`; events of both kinds are processed like any other command's
    sc.cmd(Cmd(b"+N", None, rng.choice(["r", "rt", ""]), [Var(1, a, 1)], only_test=True, group=-1))


def f_evt(rng, sid):
    """event floods, ring laps, immediate failures, with command traffic and back-pressure"""
    cap = rng.choice([1, 2, 3, 8])
    sep = rng.random() < 0.4
    # odd sizes too: with a shared buffer the two halves then do not add up to the whole
    sc = Scenario(sid, cap=cap, buf=rng.choice([64, 96, 65, 97, 41]), uns=rng.choice([0, 8, 24, 64]) if sep else -1, mutex=rng.random() < 0.3)
    sc.group()
    _evcmds(rng, sc)
    n = len(sc.cmds)
    if rng.random() < 0.25:
        sc.op("refval %d" % rng.choice([-1, -11, 2, 255]))
    p_w = rng.choice([1.0, 1.0, 0.7, 0.4])
    for _ in range(rng.randint(60, 500)):
        r = rng.random()
        if r < 0.22:
            sc.op(rng.choice(["trig %d %d" % (rng.randrange(n), rng.choice([1, 3])), "trigr %d" % rng.randrange(n), "trigt %d" % rng.randrange(n)]))
        elif r < 0.27:
            sc.op("full")
        elif r < 0.34:
            sc.op("buffered %d %d" % (rng.randrange(n), rng.choice([-1, 1, 3])))
        elif r < 0.38:
            sc.inp(rng.choice([b"AT+X\n", b"AT+U?\r\n", b"AT+S=?\n", b"AT+X=abc\n", b"AT+S=\"q\",0x0102\n", b"\n", b"AT+\n"]))
        else:
            ans = ",".join(_answer(rng, sc, False, True) for _ in range(2))
            sc.op("svc 1 %d h=%s" % (rng.random() < p_w, ans))
    drain(sc, 4000)
    quiesce_probe(sc)
    return sc


def f_hold(rng, sid):
    """hold entry by every handler kind; releases before/during/after; input queued behind"""
    sc = Scenario(sid, cap=rng.choice([1, 2, 8]), buf=96, uns=rng.choice([-1, 32]), mutex=rng.random() < 0.2)
    sc.group()
    _evcmds(rng, sc)
    kind = rng.choice([b"AT+X\n", b"AT+X?\n", b"AT+X=1\n", b"AT+X=?\n"])
    if rng.random() < 0.5:
        kind = kind[:-1] + b"\r\n"          # the held line's own line ending must come back after release
    for rep in range(rng.randint(1, 3)):
        if rng.random() < 0.3:
            sc.op("hexit %d" % rng.choice([0, 1]))       # spurious, before
        sc.inp(kind + rng.choice([b"", b"AT+X\n", b"AT+U?\r\n"]))
        steps = rng.randint(20, 60)
        held = False
        for k in range(steps):
            r = rng.random()
            if r < 0.08:
                sc.op("trig %d %d" % (rng.choice([0, 1, 3, 5]), rng.choice([1, 3])))
            elif r < 0.12:
                sc.op(rng.choice(["hold", "busy"]))
            elif r < 0.16 and k > 10:
                sc.op("hexit %d" % rng.choice([0, 0, 1, -1]))
            else:
                # the command machine's handler answers HOLD once, event handlers answer terminal codes / release
                ev_ans = rng.choice(["3", "0", "3", "5", "6", "1"])
                sc.op("svc 1 %d h=%s" % (rng.random() < 0.8, rng.choice(["4", "4", "3"]) if rng.random() < 0.5 else ev_ans + ",4"))
        sc.op("hexit %d" % rng.choice([0, 1]))
        if rng.random() < 0.5:
            sc.op("hexit %d" % rng.choice([0, 1]))      # repeated
        drain(sc, 3000)
        if rng.random() < 0.5:
            sc.op("hexit 0")                            # spurious, after
    quiesce_probe(sc)
    return sc


def f_mutex(rng, sid):
    sc = gen.rand_desc(rng, sid, mutex=1, max_cmds=5)
    if rng.random() < 0.25:
        sc.mutex = 2          # the interface struct is handed to cat_init first and gets its functions right afterwards
    n = len(sc.cmds)
    fail_at = rng.randint(1, 120)
    k = 0
    for _ in range(rng.randint(1, 3)):
        sc.inp(gen.rand_line(rng, sc))
    for _ in range(rng.randint(60, 260)):
        r = rng.random()
        k += 1
        opt = ""
        if k == fail_at or rng.random() < 0.03:
            opt = rng.choice([" lk=1", " ul=1", " lk=-7", " ul=3"])
        if r < 0.6:
            sc.op("svc 1 %d h=%s v=%s" % (rng.random() < 0.9, ",".join(_answer(rng, sc, False, True) for _ in range(2)),
                                          rng.choice(["0", "0", "0", "1", "-1"])) + opt)
        elif r < 0.7:
            sc.op("trig %d %d" % (rng.randrange(n), rng.choice([1, 3])) + opt)
        elif r < 0.74:
            sc.op("trigr %d" % rng.randrange(n) + opt)
        elif r < 0.78:
            sc.op("trigt %d" % rng.randrange(n) + opt)
        elif r < 0.84:
            sc.op("hexit %d" % rng.choice([0, 1]) + opt)
        elif r < 0.9:
            sc.op(rng.choice(["busy", "hold", "full"]) + opt)
        elif r < 0.94:
            sc.op("buffered %d -1" % rng.randrange(n))
        else:
            sc.inp(gen.rand_line(rng, sc))
    drain(sc, 3000)
    return sc


def f_list(rng, sid):
    """descriptor sweeps for TEST responses and the command list; capacities down to just too small"""
    ncmd = rng.randint(1, 6)
    sc = Scenario(sid, cap=1, buf=2 * rng.choice([16, 24, 32, 48, 64, 100, 200]), mutex=0)
    ng = rng.randint(1, 2)
    for g in range(ng):
        sc.group(None, rng.random() < 0.2)
    cmds = []
    for i in range(ncmd):
        nv = rng.choice([0, 0, 1, 2, 3, 5])
        vs = None if nv == 0 and rng.random() < 0.5 else []
        for _ in range(nv):
            t = rng.randrange(5)
            size = rng.choice([1, 2, 4] if rng.random() < 0.9 else [3]) if t < 3 else rng.choice([1, 4, 8])
            vs.append(Var(t, sc.slot(size + 1), size, rng.randrange(3), None if rng.random() < 0.3 else bytes(rng.choice(b"abcxyz") for _ in range(rng.randint(1, 5)))))
        implicit = rng.random() < 0.08
        h = "".join(k for k in "wrxt" if rng.random() < 0.5)
        if implicit:
            h = "w" if "w" in h else ""
        # now and then a name so long that its command-list line does not fit the smaller buffers
        cmds.append(Cmd(b"+C%d" % i + bytes(rng.choice(gen.ALPHA) for _ in range(rng.randint(0, 6) if rng.random() < 0.85 else rng.randint(8, 22))),
                        None if rng.random() < 0.5 else bytes(rng.choice(b"abc def%%d") for _ in range(rng.randint(0, 14))),
                        h, vs, only_test=rng.random() < 0.15, disable=rng.random() < 0.15, implicit=implicit, group=0 if (ng == 1 or i < max(1, ncmd // 2)) else 1))
    cmds.sort(key=lambda c: c.group)
    for c in cmds:
        sc.cmd(c)
    lister = Cmd(b"#LS", None, "x", None, group=ng - 1)
    sc.cmd(lister)
    for i, c in enumerate(cmds):
        if rng.random() < 0.7:
            sc.inp(b"AT" + c.name + b"=?" + rng.choice([b"\n", b"\r\n"]))
            drain(sc, 3000, "h=%s" % rng.choice(["3", "0", "7"]))
    sc.inp(b"AT#LS" + rng.choice([b"\n", b"\r\n"]))
    drain(sc, 8000, "h=7")
    if rng.random() < 0.6:
        # then ask for what the list advertised (and for what it did not): every form of some commands
        for c in rng.sample(cmds, min(len(cmds), 3)):
            for suf in (b"", b"?", b"=?"):
                sc.inp(b"AT" + c.name + suf + b"\n")
                drain(sc, 3000, "h=3")
    if rng.random() < 0.5:
        sc.op("flag c %d dis %d" % (rng.randrange(ncmd), rng.random() < 0.5))
        sc.op("flag g %d %d" % (rng.randrange(ng), rng.random() < 0.3))
        sc.inp(b"AT#LS\n")
        drain(sc, 8000, "h=7")
    return sc


def f_access(rng, sid):
    """all three access modes in every position; READ and WRITE traffic; RO slots exclusive"""
    sc = Scenario(sid, cap=1, buf=2 * rng.choice([48, 96, 160]), mutex=0)
    sc.group()
    for k in range(rng.randint(1, 3)):
        sc.cmd(_numcmd(rng, sc, types=(0, 1, 2, 3, 4), accs=(0, 1, 2), name=b"+A%d" % k))
    for c in sc.cmds:
        c.h = rng.choice(["", "", "r", "w"])
    if rng.random() < 0.5:
        # read-only focus: the leading variables are read-only and their storage holds no zero
        # byte, so that any store into it (even a terminator) is visible
        for c in sc.cmds:
            c.need_all = False
            for v in c.vars[:rng.randint(1, len(c.vars))]:
                v.acc = 1
        shared = set(v.slot for c in sc.cmds for v in c.vars if v.acc != 1)
        for c in sc.cmds:
            for v in c.vars:
                if v.acc == 1 and v.slot not in shared:
                    ln = sc.slots[v.slot][0]
                    sc.slots[v.slot] = (ln, bytes(rng.choice(b"KEPMQ\x7f\xff\x01") for _ in range(ln)))
    for _ in range(rng.randint(4, 12)):
        c = rng.choice(sc.cmds)
        if rng.random() < 0.4:
            line = b"AT" + c.name + b"?"
        else:
            line = b"AT" + c.name + b"=" + b",".join(gen.arg_for(rng, v) for v in c.vars[:rng.randint(0, len(c.vars))])
        sc.inp(line + b"\n")
        drain(sc, 2500)
    return sc


def f_fit(rng, sid):
    """READ / TEST / command-list texts against command-buffer capacities at and around the exact fit"""
    import props
    nv = rng.randint(1, 4)
    tmp = Scenario(sid, cap=1, buf=512, mutex=0)
    tmp.group()
    vs = []
    for _ in range(nv):
        t = rng.randrange(5)
        size = rng.choice([1, 2, 4]) if t < 3 else rng.choice([1, 2, 3, 5, 8])
        if t == 4:
            k = rng.randint(0, size - 1)
            init = bytes(rng.choice(b'ab"\\\n,xyz \t\x01\xff') for _ in range(k)) + bytes(size)
        else:
            init = bytes(rng.randrange(256) for _ in range(size))
            if t in (0, 1) and rng.random() < 0.5:
                init = rng.choice([b"\x00", b"\x09", b"\x0a", b"\x63", b"\x64", b"\xff", b"\x80", b"\x7f"]) + bytes(size)
        init = init[:size]
        vs.append((t, size, init, rng.choice([0, 0, 0, 1, 2]), None if rng.random() < 0.4 else bytes(rng.choice(b"abcxyz_") for _ in range(rng.choice([1, 2, 3, 3, 18, 19, 20, 24, 31, 40])))))
    name = b"+F" + bytes(rng.choice(gen.ALPHA) for _ in range(rng.randint(0, 4)))
    desc = None if rng.random() < 0.5 else bytes(rng.choice(b"abc def%%d") for _ in range(rng.randint(0, 8)))
    kind = rng.choice(["read", "read", "test", "list"])
    vars_ = [Var(t, i, size, acc, nm) for i, (t, size, init, acc, nm) in enumerate(vs)]
    c = Cmd(name, desc, "x" if kind == "list" else "", vars_)
    nl = rng.choice([b"\n", b"\r\n"])
    if kind == "read":
        parts = [props.fmt_var(v, vs[i][2]) for i, v in enumerate(vars_)]
        L = len(name) + 1 + sum(len(x) for x in parts) + len(parts) - 1
        line = b"AT" + name + b"?"
    elif kind == "test":
        txt = props.expected_test_text(c, nl)
        L = len(txt)
        line = b"AT" + name + b"=?"
    else:
        L = len(nl) + 2 + len(name) + 2 + len(nl)      # longest list line "\nAT<name>=?\n"
        line = b"AT" + name
    ccap = max(6, L + rng.choice([-2, -1, 0, 0, 1, 1, 2, 3]))
    sep = rng.random() < 0.4
    sc = Scenario(sid, cap=1, buf=ccap if sep else 2 * ccap + rng.randint(0, 1), uns=rng.choice([0, 8, 32]) if sep else -1, mutex=0)
    sc.group()
    for (t, size, init, acc, nm) in vs:
        sc.slot(size, init)
    sc.cmd(c)
    sc.inp(line + nl)
    drain(sc, 3000, "h=7" if kind == "list" else "")
    return sc


def f_bigambig(rng, sid):
    """hundreds of commands sharing a prefix: the partial-match counter far beyond one byte"""
    n = rng.choice([255, 256, 257, 258, 300, 512, 513])
    pre = b"+" + bytes(rng.choice(b"ABCDEFGH") for _ in range(2))
    buf = (n + 8) // 4 + 8
    sc = Scenario(sid, cap=1, buf=2 * buf, uns=-1, mutex=0)
    sc.group()
    sc.group()
    k = rng.randrange(n)
    for i in range(n):
        sc.cmd(Cmd(pre + b"%03d" % i, None, "wrxt", None, group=0 if i < n // 2 else 1))
    tail_n = rng.randint(1, 3)
    for i in range(tail_n):
        sc.cmd(Cmd(b"+Z%d" % i, None, "x", None, group=1))
    for sfx in rng.sample([b"", b"?", b"=1", b"=?", b"0", b"00", b"1"], 4):
        sc.inp(b"AT" + pre + sfx + b"\n")
        drain(sc, 40 * n + 800)
    return sc


def f_tabevt(rng, sid):
    """abbreviated names resolved while events on commands with several variables are popped and formatted"""
    sc = f_table(rng, sid)
    a = sc.slot(4, b"\1\2\3\4")
    b = sc.slot(2, b"\5\6")
    sc.cmd(Cmd(b"+EVA", None, rng.choice(["", "r"]), [Var(1, a, 4), Var(2, b, 2), Var(0, a, 1)], group=-1))
    sc.cmd(Cmd(b"+EVB", b"d", rng.choice(["", "t"]), [Var(1, a, 4), Var(2, b, 2)], group=-1))
    e1, e2 = len(sc.cmds) - 2, len(sc.cmds) - 1
    ops = []
    for o in sc.ops:
        if o.startswith("drain"):
            mx = int(o.split()[1])
            k = 0
            while k < mx // 4:
                step = rng.randint(1, 30)
                ops.append("drain %d 1 1" % step)
                k += step
                if rng.random() < 0.5:
                    ops.append("trig %d %d" % (rng.choice([e1, e2]), rng.choice([1, 3])))
            ops.append(o)
        else:
            ops.append(o)
    sc.ops = ops
    return sc


def f_holdtick(rng, sid):
    """a held command is released while unsolicited events keep coming (each event's handler triggers
    the next one): the result code must not wait for the event stream to dry up"""
    sep = rng.random() < 0.5
    sc = Scenario(sid, cap=rng.choice([1, 2, 3]), buf=64 if sep else 128, uns=rng.choice([32, 64]) if sep else -1, mutex=0)
    sc.group()
    a = sc.slot(1, b"\x05")
    sc.cmd(Cmd(b"+U", None, "r", [Var(1, a, 1)], group=0))
    sc.cmd(Cmd(b"+X", None, "wxrt", None, group=0))
    sc.cmd(Cmd(b"+N", None, "x", None, group=0))
    nl = rng.choice([b"\n", b"\r\n"])
    sc.inp(rng.choice([b"AT+X", b"AT+X?", b"AT+X=1", b"AT+X=?"]) + nl + b"AT+N" + nl)
    for _ in range(40):
        sc.op("svc 1 1 h=4")                     # the command's handler answers HOLD
    sc.op("hold")
    sc.op("trigr 0")
    tick = rng.choice(["0/t:0:1", "0/t:0:1", "1/t:0:1", "3/t:0:1"])
    for _ in range(rng.randint(0, 25)):
        sc.op("svc 1 1 h=%s" % tick)
    sc.op("hexit %d" % rng.choice([0, 1]))
    bound = 2 * (sc.buf + max(sc.uns, 0)) + 100
    for _ in range(bound + 60):
        sc.op("svc 1 1 h=%s,3" % tick)            # events go on; the released command's successor answers OK
    for _ in range(30):
        sc.op("svc 1 1 h=3,3")
    drain(sc, 3000)
    quiesce_probe(sc)
    return sc


def f_flagmid(rng, sid):
    """disable flags set while a line is being typed (after the AT prefix, before the name is
    terminated) and kept until the line has been answered: the command must be invisible to it"""
    n = rng.choice([3, 5, 9, 17])
    ngroups = rng.randint(1, 3)
    sc = Scenario(sid, cap=1, buf=2 * max(24, n), uns=-1, mutex=0)
    for g in range(ngroups):
        sc.group(None, False)
    stem = [bytes(rng.choice(gen.ALPHA) for _ in range(rng.randint(1, 2))) for _ in range(3)]
    per = [(n * (g + 1)) // ngroups - (n * g) // ngroups for g in range(ngroups)]
    pool = []
    for g in range(ngroups):
        for _ in range(per[g]):
            nm = b"+" + rng.choice(stem) + bytes(rng.choice(gen.ALPHA) for _ in range(rng.randint(1, 3)))
            pool.append(nm)
            v = None
            if rng.random() < 0.4:
                v = [Var(1, sc.slot(1, b"\x2a"), 1, 0, None, rng.choice([0, 2]))]
            sc.cmd(Cmd(nm, None, "wrxt", v, group=g))
    for _ in range(rng.randint(3, 8)):
        ci = rng.randrange(len(sc.cmds))
        c = sc.cmds[ci]
        nm = c.name.upper()
        typed = nm if rng.random() < 0.6 else nm[:rng.randint(2, len(nm))]
        cut = rng.randint(2, 2 + len(typed))      # after "AT", somewhere inside the name
        line = b"AT" + typed
        sfx = rng.choice([b"", b"?", b"=7", b"=?", b"="])
        sc.inp(line[:cut])
        drain(sc, 20 * n + 200)
        # disable the addressed command, a command it is a prefix of, or a whole group
        r = rng.random()
        undo = None
        if r < 0.55:
            sc.op("flag c %d dis 1" % ci); undo = "flag c %d dis 0" % ci
        elif r < 0.8:
            gi = c.group
            sc.op("flag g %d 1" % gi); undo = "flag g %d 0" % gi
        else:
            cj = rng.randrange(len(sc.cmds))
            sc.op("flag c %d dis 1" % cj); undo = "flag c %d dis 0" % cj
        sc.inp(line[cut:] + sfx + b"\n")
        drain(sc, 40 * n + 800)
        if rng.random() < 0.7:
            sc.op(undo)
    return sc


def f_woevt(rng, sid):
    """a solicited READ/TEST of one command overlapping, call by call, with an unsolicited read event of
    another: variables of all access modes on both sides, write-only storage non-zero (a value
    formatted by one machine with the other machine's access decision shows up in the output)"""
    sep = rng.random() < 0.5
    sc = Scenario(sid, cap=rng.choice([1, 2]), buf=rng.choice([96, 160]) * (1 if sep else 2), uns=rng.choice([96, 160]) if sep else -1, mutex=0)
    sc.group()
    for k in range(2):
        c = _numcmd(rng, sc, nvars=rng.randint(2, 4), types=(0, 1, 2, 3, 4), accs=(0, 1, 2, 2), name=b"+W%d" % k)
        c.h = ""
        c.need_all = False
        for v in c.vars:
            v.cb = 0
        c.vars[0].acc = 0
        sc.cmd(c)
    for c in sc.cmds:
        for v in c.vars:
            if v.acc == 2:
                ln = sc.slots[v.slot][0]
                sc.slots[v.slot] = (ln, bytes(rng.choice(b"0123456789abcdefXYZ\x01\x7f\xfe") for _ in range(ln)))
    for _ in range(rng.randint(2, 5)):
        a = rng.randrange(2)
        sc.inp(b"AT" + sc.cmds[a].name + rng.choice([b"?", b"?", b"=?"]) + b"\n")
        for _ in range(rng.randint(0, 30)):
            sc.op("svc 1 1")
        sc.op("trigr %d" % rng.choice([1 - a, 1 - a, a]))
        if rng.random() < 0.3:
            for _ in range(rng.randint(0, 12)):
                sc.op("svc 1 %d" % (rng.random() < 0.8))
            sc.inp(b"AT" + sc.cmds[1 - a].name + b"?\n")
        drain(sc, 3000)
    return sc


FAMILIES = {
    "woevt": f_woevt, "listevt": f_listevt, "rnext": f_rnext, "report": f_report, "wide": f_wide, "unlock": f_unlock, "argevt": f_argevt, "flagmid": f_flagmid, "holdtick": f_holdtick,
    "mixed": f_mixed, "lines": f_lines, "table": f_table, "num": f_num, "buf": f_buf, "cap": f_cap, "ret": f_ret,
    "sched": f_sched, "evt": f_evt, "hold": f_hold, "mutex": f_mutex, "list": f_list, "access": f_access,
    "fit": f_fit, "bigambig": f_bigambig, "tabevt": f_tabevt,
}


def generate(seed, family, n, prefix=None):
    rng = random.Random(repr((seed, family)))
    f = FAMILIES[family]
    return [f(rng, "%s-%d-%d" % (prefix or family, seed, i)) for i in range(n)]


# (family, quick count, thorough count)
PLAN = {
    "C01": [("lines", 60, 600), ("cap", 40, 400), ("sched", 40, 400), ("mixed", 40, 400), ("table", 20, 200)],
    "C02": [("table", 50, 800), ("tabevt", 40, 500), ("bigambig", 6, 40), ("unlock", 30, 400), ("lines", 50, 500), ("mixed", 30, 300)],
    "C03": [("cap", 60, 600), ("fit", 60, 600), ("buf", 40, 500), ("evt", 30, 300), ("mixed", 50, 600), ("list", 20, 300), ("num", 20, 300), ("report", 60, 800)],
    "C04": [("num", 120, 2000), ("argevt", 40, 500), ("lines", 30, 300), ("mixed", 20, 200)],
    "C05": [("buf", 120, 2000), ("argevt", 40, 500), ("lines", 30, 300), ("mixed", 20, 200)],
    "C06": [("cap", 100, 1200), ("lines", 30, 300), ("ret", 60, 500), ("rnext", 40, 300), ("report", 30, 300), ("mixed", 20, 200)],
    "C07": [("access", 60, 800), ("fit", 100, 1500), ("rnext", 60, 500), ("ret", 30, 300), ("lines", 40, 400), ("mixed", 20, 200)],
    "C08": [("access", 100, 1200), ("woevt", 40, 500), ("lines", 30, 300), ("mixed", 20, 200)],
    "C09": [("lines", 100, 1200), ("table", 40, 400), ("flagmid", 40, 500), ("unlock", 30, 400), ("tabevt", 20, 300), ("mixed", 30, 300)],
    "C10": [("ret", 200, 3000), ("listevt", 40, 400), ("report", 30, 300), ("lines", 30, 300), ("mixed", 30, 300)],
    "C11": [("evt", 60, 700), ("mixed", 60, 700), ("hold", 40, 400), ("sched", 30, 300), ("list", 20, 200), ("report", 30, 300)],
    "C12": [("sched", 100, 1200), ("mixed", 30, 300)],
    "C13": [("evt", 100, 1200), ("mixed", 40, 400), ("hold", 20, 200), ("mutex", 30, 300)],
    "C14": [("hold", 100, 1200), ("holdtick", 10, 100), ("mixed", 40, 400), ("mutex", 30, 300)],
    "C15": [("mixed", 60, 700), ("evt", 50, 500), ("lines", 30, 300), ("hold", 20, 200), ("list", 10, 100)],
    "C16": [("mutex", 100, 1200), ("mixed", 40, 400)],
    "C17": [("mutex", 60, 600), ("evt", 40, 400)],
    "C18": [("mixed", 60, 700), ("evt", 50, 500), ("hold", 30, 300), ("sched", 20, 200)],
    "C19": [("list", 120, 1500), ("fit", 100, 1200), ("rnext", 50, 400), ("ret", 40, 400), ("lines", 30, 300)],
    "C20": [("lines", 100, 1200), ("cap", 30, 300), ("mixed", 20, 200), ("hold", 30, 300)],
}

ASSUMPTIONS = {}


# ------------------------------------------------------------------------------- metamorphic oracles
# Each returns [(scenario, [messages])] for violations found by comparing two runs of the
# IMPLEMENTATION; META_COUNT records how many twin cases were evaluated in the last call.

META_COUNT = {}


def _final_mem(scn, tr):
    an = oracles.An(scn, tr)
    tl = props.slot_timeline(an)
    return tl[-1] if tl else {i: bytes((ini + bytes(ln))[:ln]) for i, (ln, ini) in enumerate(scn.slots)}


def _hv(an):
    return [e[:9] for li in range(len(an.lines)) for e in an.ev[li] if e[0] == "H"], [e for li in range(len(an.lines)) for e in an.ev[li] if e[0] == "V"]


def meta_C12(seed, tier, bins, n=None):
    """event-free input under an arbitrary schedule vs. the eager schedule: same output bytes, same
    handler and variable-callback invocations with the same arguments, same final memory"""
    n = n or (60 if tier == "quick" else 800)
    sched = generate(seed, "sched", n, prefix="C12-twin")
    eager = []
    for sc in sched:
        e = copy.copy(sc)
        e.sid = sc.sid + "-eager"
        e.ops = [o for o in sc.ops if o.startswith(("hq", "vq"))] + ["in " + hx(sc.meta["input"]), "drain 8000 1 1"]
        eager.append(e)
    tr = lib.run_impl(sched + eager, bins)
    out = []
    for sc, e in zip(sched, eager):
        a, b = oracles.An(sc, tr[sc.sid]), oracles.An(e, tr[e.sid])
        if a.tr.abort or b.tr.abort or not (a.drained_ok() and b.drained_ok()):
            continue
        msgs = []
        if a.outbytes() != b.outbytes():
            msgs.append("output under the schedule %r differs from the eager output %r" % (a.outbytes()[:200], b.outbytes()[:200]))
        ha, va = _hv(a)
        hb, vb = _hv(b)
        if ha != hb:
            msgs.append("handler invocations differ: scheduled %r / eager %r" % (ha[:4], hb[:4]))
        if va != vb:
            msgs.append("variable callbacks differ: scheduled %r / eager %r" % (va[:4], vb[:4]))
        if _final_mem(sc, tr[sc.sid]) != _final_mem(e, tr[e.sid]):
            msgs.append("final variable contents differ between schedules")
        if msgs:
            sc.no_minimise = True
            out.append((sc, ["C12 twin run (the eager twin feeds the whole input and drains): " + msgs[0]] + msgs[1:]))
    # second twin: an event queued up front and a multi-line response (command list, LF-only input, constant
    # answers).  Which machine gets the output first legitimately depends on the schedule, so the two
    # producers' byte streams are compared separately: each must be the same under every schedule.
    rng = random.Random(repr((seed, "C12-twin-evt")))
    m = max(10, n // 3)
    pairs = []
    for k in range(m):
        sc = Scenario("C12-twinevt-%d-%d" % (seed, k), cap=rng.choice([1, 2, 8]), buf=rng.choice([96, 128, 200, 65, 97, 129, 201]),
                      uns=rng.choice([-1, -1, 48]), mutex=0)        # odd sizes too: the two halves of a shared buffer must still not overlap
        sc.group()
        a = sc.slot(1, b"\x05")
        ncmd = rng.randint(1, 4)
        for i in range(ncmd):
            h = "".join(x for x in "wrxt" if rng.random() < 0.7) or "x"
            sc.cmd(Cmd(b"+C%d" % i, None, h, [Var(1, a, 1)] if rng.random() < 0.5 else None))
        sc.cmd(Cmd(b"#LS", None, "x", None))
        sc.cmd(Cmd(b"+EV", None, "", [Var(1, a, 1, 0, b"v", 1)], group=-1))
        nevt = 1 if sc.cap == 1 else rng.randint(1, 2)       # never more than the ring holds: acceptance must not depend on timing
        inp = b"AT#LS\n" + rng.choice([b"", b"AT+C0\n"])
        e = copy.copy(sc)
        e.sid = sc.sid + "-eager"
        hq = "hq " + ",".join(["7"] * 40)
        trig = "trig %d 1" % (ncmd + 1)
        e.ops = [hq] + [trig] * nevt + ["in " + hx(inp), "drain 20000 1 1"]
        ops = [hq]
        early = rng.random() < 0.3
        if early:
            ops += [trig] * nevt
        pos = 0
        while pos < len(inp):
            kk = rng.randint(1, 4)
            ops.append("in " + hx(inp[pos:pos + kk]))
            pos += kk
            for _ in range(rng.randint(0, 12)):
                ops.append("svc %d %s" % (rng.random() < 0.7, _wpat(rng, 0.6)))
        tail = ["svc 1 %s" % _wpat(rng, 0.5) for _ in range(rng.randint(20, 200))]
        if not early:
            # the events arrive while the response is being produced or sent
            for _ in range(nevt):
                tail.insert(rng.randrange(0, min(len(tail), 60)), trig)
        ops += tail
        ops.append("drain 20000 1 1")
        sc.ops = ops
        pairs.append((sc, e))
    tr = lib.run_impl([x for p in pairs for x in p], bins)
    for sc, e in pairs:
        a, b = oracles.An(sc, tr[sc.sid]), oracles.An(e, tr[e.sid])
        if a.tr.abort or b.tr.abort or not (a.drained_ok() and b.drained_ok()):
            continue
        msgs = []
        for f, nm in (("c", "command"), ("u", "unsolicited")):
            if a.outbytes(f) != b.outbytes(f):
                msgs.append("output of the %s machine under the schedule %r differs from its output under the eager schedule %r"
                            % (nm, a.outbytes(f)[:200], b.outbytes(f)[:200]))
        # ... and the merged stream must be made of whole units under the schedule if it is under the eager one
        try:
            ua, ub = props.oracle_C11(a), props.oracle_C11(b)
        except Exception:
            ua = ub = None
        if ua and not ub:
            msgs.append("under the eager schedule the output is a sequence of whole units, under this schedule it is not: " + str(ua[0]))
        if msgs:
            sc.no_minimise = True
            out.append((sc, ["C12 twin run with a queued event (each producer's own byte stream must not depend on the schedule): " + msgs[0]] + msgs[1:]))
    META_COUNT["C12"] = len(sched) + len(pairs)
    return out


def meta_C20(seed, tier, bins, n=None):
    """the output for a concatenation of lines equals the concatenation of the outputs for each line fed
    alone (same handlers, variables carried over)"""
    n = n or (50 if tier == "quick" else 600)
    rng = random.Random(repr((seed, "C20-twin")))
    out = []
    cat, singles = [], []
    for k in range(n):
        sc = gen.rand_desc(rng, "C20-twin-%d-%d" % (seed, k), mutex=0, max_cmds=6)
        if rng.random() < 0.3 and not any(c.implicit for c in sc.cmds):
            sc.cmds[0].implicit = True
            sc.cmds[0].h = "w"
            sc.cmds[0].disable = False
        ans = rng.choice(["3", "0", "-1", "3", "7", "0/e:x4142", "3"])
        script = ",".join([ans] * 60)
        vscript = ",".join([rng.choice(["0", "0", "0", "1"])] * 60)
        lines = [gen.rand_line(rng, sc) for _ in range(rng.randint(2, 6))]
        imp = [c for c in sc.cmds if c.implicit and c.group >= 0]
        if imp and rng.random() < 0.6:
            c = rng.choice(imp)
            ccap = sc.buf if sc.uns >= 0 else sc.buf // 2
            lines.insert(rng.randrange(len(lines)), b"AT" + c.name + bytes(rng.choice(b"0123456789abc") for _ in range(rng.choice([0, 3, ccap - 1, ccap, ccap + 5, 2 * ccap]))) + b"\n")
        sc.meta["lines"] = lines
        sc.ops = ["hq " + script, "vq " + vscript, "in " + hx(b"".join(lines)), "drain 20000 1 1"]
        cat.append(sc)
    tr = lib.run_impl(cat, bins)
    for sc in cat:
        an = oracles.An(sc, tr[sc.sid])
        if an.tr.abort or not an.drained_ok():
            continue
        spans = props.line_spans(an)
        tl = props.slot_timeline(an)
        if len(spans) != len(sc.meta["lines"]):
            continue
        if len(an.handlers) + len(an.varcbs) > 50:
            continue
        init = {i: bytes((ini + bytes(ln))[:ln]) for i, (ln, ini) in enumerate(sc.slots)}
        prev_end = 0
        parts = []
        for i, (t, a, b) in enumerate(spans):
            memb = tl[prev_end - 1] if prev_end > 0 else init
            one = copy.copy(sc)
            one.sid = "%s-line%d" % (sc.sid, i)
            one.slots = [(ln, memb[j]) for j, (ln, _) in enumerate(sc.slots)]
            one.ops = [sc.ops[0], sc.ops[1], "in " + hx(sc.meta["lines"][i]), "drain 20000 1 1"]
            one.meta = {"parent": sc, "index": i, "expect": bytes(x for (li, x, f, p) in an.outs if a <= li < b)}
            parts.append(one)
            prev_end = b
        singles += parts
    tr2 = lib.run_impl(singles, bins)
    bad = {}
    for one in singles:
        t = tr2.get(one.sid)
        if t is None or t.abort:
            continue
        got = oracles.An(one, t).outbytes()
        if got != one.meta["expect"]:
            p = one.meta["parent"]
            if p.sid not in bad:
                p.no_minimise = True
                bad[p.sid] = (p, ["C20 twin run: line #%d %r answered %r inside the concatenation but %r when fed alone (variables carried over)" % (one.meta["index"], p.meta["lines"][one.meta["index"]], one.meta["expect"], got)])
    # hold history: an earlier line (or an application call) asks to leave a hold that is not there; a later
    # line enters a hold and is released by the application.  The later line must behave as when fed alone.
    pairs = []
    m = max(8, n // 5)
    for k in range(m):
        sc = Scenario("C20-twinhold-%d-%d" % (seed, k), cap=1, buf=128, uns=-1, mutex=0)
        sc.group()
        sc.cmd(Cmd(b"+JOB", None, "xr", None))
        sc.cmd(Cmd(b"+Q", None, "x", None))
        first = rng.choice([b"AT+Q\n", b"AT+JOB?\r\n", b"AT+Q\r\n"])
        early = rng.choice(["5", "6", "3"])             # HOLD_EXIT_OK / HOLD_EXIT_ERROR outside a hold, or plain OK
        stray = rng.random() < 0.4                       # cat_hold_exit() by the application outside a hold
        later = rng.choice([b"AT+JOB\n", b"AT+JOB\r\n", b"AT+JOB?\n"])
        rel = rng.choice([0, 1])
        wait = rng.randint(5, 60)
        tail = ["in " + hx(later)] + ["svc 1 1"] * wait + ["hold", "hexit %d" % rel, "drain 4000 1 1"]
        sc.ops = ["hq " + early + ",4,3,3"] + ["in " + hx(first), "drain 4000 1 1"] + (["hexit %d" % rng.choice([0, 1])] if stray else []) + tail
        one = copy.copy(sc)
        one.sid = sc.sid + "-alone"
        one.ops = ["hq 4,3,3"] + tail
        sc.meta["first"] = first
        pairs.append((sc, one))
    tr3 = lib.run_impl([x for p in pairs for x in p], bins)
    for sc, one in pairs:
        a, b = oracles.An(sc, tr3[sc.sid]), oracles.An(one, tr3[one.sid])
        if a.tr.abort or b.tr.abort or not (a.drained_ok() and b.drained_ok()):
            continue
        # the output of the later line = everything after the first line's answer
        whole, alone = a.outbytes(), b.outbytes()
        ra = [l.ret for l, o in zip(a.lines, [a.op_of(i) for i in range(len(a.lines))]) if o.startswith(("hold", "hexit"))][-2:]
        rb = [l.ret for l, o in zip(b.lines, [b.op_of(i) for i in range(len(b.lines))]) if o.startswith(("hold", "hexit"))][-2:]
        if not whole.endswith(alone) or ra != rb:
            sc.no_minimise = True
            bad[sc.sid] = (sc, ["C20 twin run (hold history): after the line %r the line that enters a hold and is released by the application "
                                "produced %r in total and cat_is_hold / cat_hold_exit returned %r; fed alone it produces %r and they return %r"
                                % (sc.meta["first"], whole, ra, alone, rb)])
    META_COUNT["C20"] = len(singles) + len(pairs)
    return list(bad.values())


def meta_C07(seed, tier, bins, n=None):
    """READ output fed back as WRITE arguments restores every read-write variable"""
    n = n or (80 if tier == "quick" else 1500)
    rng = random.Random(repr((seed, "C07-twin")))
    reads = []
    for k in range(n):
        sc = Scenario("C07-rt-%d-%d" % (seed, k), cap=1, buf=2 * rng.choice([64, 128, 256]), mutex=0)
        sc.group()
        vs = []
        stringy = rng.random() < 0.3       # several string variables full of separators, quotes and backslashes
        for _ in range(rng.randint(2, 4) if stringy else rng.randint(1, 5)):
            t = 4 if (stringy and rng.random() < 0.8) else rng.randrange(5)
            size = rng.choice([1, 2, 4]) if t < 3 else rng.choice([1, 2, 3, 4, 8, 16])
            if t == 4 and stringy:
                kk = rng.randint(0, size - 1)
                init = bytes(rng.choice(b'\\\\",,,a') for _ in range(kk)) + bytes(size)
                if kk and rng.random() < 0.5:
                    init = init[:kk - 1] + b"\\" + bytes(size)
                init = init[:size]
            elif t == 4:
                kk = rng.randint(0, size - 1)
                init = bytes(rng.choice([x for x in range(1, 256) if x != 13]) if rng.random() < 0.5 else rng.choice(b'a"\\\n,z\t \x08\x7f\x1b') for _ in range(kk)) + bytes(size)
                init = init[:size]
            elif rng.random() < 0.4:
                v = rng.choice([0, 1, 2 ** (8 * size - 1) - 1, 2 ** (8 * size - 1), 2 ** (8 * size) - 1, 9, 10, 99, 100])
                init = (v % 2 ** (8 * size)).to_bytes(size, "little")
            else:
                init = bytes(rng.randrange(256) for _ in range(size))
            vs.append(Var(t, sc.slot(size, init), size, rng.choice([0, 0, 0, 0, 1]), None))
        sc.cmd(Cmd(b"+RT", None, "", vs))
        sc.inp(b"AT+RT?" + rng.choice([b"\n", b"\r\n"]))
        drain(sc, 4000)
        reads.append(sc)
    tr = lib.run_impl(reads, bins)
    writes = []
    for sc in reads:
        an = oracles.An(sc, tr[sc.sid])
        data = [u for u in an.units if u.fsm == "c" and u.complete and not u.is_code() and not u.raw]
        if an.tr.abort or len(data) != 1 or not bytes(data[0].payload).startswith(b"+RT="):
            continue
        if not any(v.acc == 0 for v in sc.cmds[0].vars):
            continue          # nothing writable: a WRITE is refused (C08), no round trip to speak of
        payload = bytes(data[0].payload)[4:]
        w = copy.copy(sc)
        w.sid = sc.sid + "-write"
        orig = [ini for (ln, ini) in sc.slots]
        w.slots = [(ln, bytes((x ^ 0x5A) for x in ini)) if sc.cmds[0].vars[j].acc == 0 else (ln, ini) for j, (ln, ini) in enumerate(sc.slots)]
        w.ops = ["in " + hx(b"AT+RT=" + payload + b"\n"), "drain 6000 1 1"]
        w.meta = {"orig": orig, "payload": payload, "read": sc}
        writes.append(w)
    tr2 = lib.run_impl(writes, bins)
    out = []
    for w in writes:
        t = tr2.get(w.sid)
        if t is None:
            continue
        an = oracles.An(w, t)
        codes = [bytes(u.payload) for u in an.codes()]
        fin = _final_mem(w, t)
        msgs = []
        if t.abort:
            msgs.append("abort while writing back %r" % w.meta["payload"])
        elif codes[:1] != [b"OK"]:
            msgs.append("READ printed %r but writing it back was answered %r" % (w.meta["payload"], codes[:1]))
        else:
            for j, var in enumerate(w.cmds[0].vars):
                if var.acc != 0:
                    continue
                a, b = w.meta["orig"][j][:var.size], fin[j][:var.size]
                if var.type == 4:
                    a, b = a.split(b"\0")[0], b.split(b"\0")[0]
                if a != b:
                    msgs.append("variable %d (type %d size %d) held %s, READ printed %r, after writing it back it holds %s" % (j, var.type, var.size, a.hex(), w.meta["payload"], b.hex()))
        if msgs:
            w.no_minimise = True
            out.append((w, ["C07 round trip: " + msgs[0]] + msgs[1:]))
    META_COUNT["C07"] = len(writes)
    return out


def meta_C08(seed, tier, bins, n=None):
    """two runs that differ only in the contents of write-only variables produce identical output"""
    n = n or (60 if tier == "quick" else 800)
    a = generate(seed, "access", n, prefix="C08-twin") + generate(seed, "woevt", max(20, n // 2), prefix="C08-wotwin")
    b = []
    rng = random.Random(repr((seed, "C08-twin")))
    for sc in a:
        wo, other = set(), set()
        for c in sc.cmds:
            for var in (c.vars or []):
                (wo if var.acc == 2 else other).add(var.slot)
        wo -= other
        t = copy.copy(sc)
        t.sid = sc.sid + "-twin"
        t.slots = [(ln, bytes(rng.randrange(256) for _ in range(ln)) if j in wo else ini) for j, (ln, ini) in enumerate(sc.slots)]
        t.meta = {"wo": wo}
        b.append(t)
    tr = lib.run_impl(a + b, bins)
    out = []
    for x, y in zip(a, b):
        if not y.meta["wo"]:
            continue
        ax, ay = oracles.An(x, tr[x.sid]), oracles.An(y, tr[y.sid])
        if ax.tr.abort or ay.tr.abort:
            continue
        if ax.outbytes() != ay.outbytes() or [h[:9] for h in ax.handlers] != [h[:9] for h in ay.handlers]:
            x.no_minimise = True
            out.append((x, ["C08 twin run: changing only the contents of write-only slots %s changed the output: %r vs %r" % (sorted(y.meta["wo"]), ax.outbytes()[:160], ay.outbytes()[:160])]))
    META_COUNT["C08"] = len(b)
    return out


META = {"C12": meta_C12, "C20": meta_C20, "C07": meta_C07, "C08": meta_C08}


# ------------------------------------------------------------------------------- mutations

def mutations(rng, scn, n):
    """variants of a scenario: dropped / duplicated operations, eager schedule, fewer lines"""
    out = []
    for k in range(n):
        s = copy.copy(scn)
        ops = list(scn.ops)
        r = rng.random()
        if r < 0.3 and len(ops) > 2:
            i = rng.randrange(len(ops))
            del ops[i:i + rng.randint(1, max(1, len(ops) // 4))]
        elif r < 0.5:
            ops = [("svc 1 1" + o[7:]) if o.startswith("svc ") else o for o in ops]
        elif r < 0.7 and ops:
            i = rng.randrange(len(ops))
            ops.insert(i, ops[i])
        else:
            ops = ops[:max(1, rng.randrange(len(ops) + 1))] + ["drain 3000 1 1"]
        s.ops = ops
        s.sid = "%s~m%d" % (scn.sid, k)
        out.append(s)
    return out
