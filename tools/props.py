"""Per-property observation functions (what the correspondence check compares between
implementation and model for that property) and oracles (what the property forbids, judged
on the implementation trace alone).  An oracle returns a list of violation messages
([] = nothing found) or None when the scenario is outside the oracle's domain."""
from oracles import *  # noqa
import oracles as O


# ---------------------------------------------------------------------------------------
# flattened canonical sequence
# ---------------------------------------------------------------------------------------

def seq(an, want):
    """Flattened temporal sequence of items.  `want` is a set of item kinds:
       rd, lf, Hc, Hu, V, unit, mem, ret, N"""
    out = []
    ustart = {}
    for u in an.units:
        ustart.setdefault(u.end, []).append(u)
    for li, l in enumerate(an.lines):
        for e in an.ev[li]:
            k = e[0]
            if k == "R" and e[1] is not None:
                if "rd" in want:
                    out.append(("rd", e[1]))
                elif "lf" in want and e[1] == 10:
                    out.append(("lf",))
            elif k == "H":
                if ("Hc" in want and e[3] == "c") or ("Hu" in want and e[3] == "u"):
                    out.append(e)
            elif k == "V" and "V" in want:
                out.append(e)
            elif k == "N" and "N" in want:
                out.append(e)
        if "unit" in want:
            for u in ustart.get(li, []):
                if u.complete:
                    out.append(("unit", u.fsm, u.raw, bytes(u.pre), bytes(u.payload), bytes(u.post)))
        if "mem" in want and l.m:
            out.append(("mem", tuple(l.m)))
        if "ret" in want and not an.is_svc(li):
            out.append(("ret", an.op_of(li).split()[0], l.ret))
    return out


def hshort(e):
    """handler event without the data it saw"""
    return ("H", e[1], e[2], e[3], e[8])


# ---------------------------------------------------------------------------------------
# C01
# ---------------------------------------------------------------------------------------

def obs_C01(an):
    # order of successful reads and of result-code completions (polarity is not C01's business)
    items = []
    done = {}
    for u in an.codes():
        if u.complete:
            done[u.end] = done.get(u.end, 0) + 1
    rd = {}
    for (li, b) in an.reads:
        rd[li] = rd.get(li, 0) + 1
    for li in range(len(an.lines)):
        items.append("r" * rd.get(li, 0) + "c" * done.get(li, 0))
    return "".join(items)


def oracle_C01(an):
    if an.uns_hold:
        return None
    v = []
    lines = an.consumed_lines()
    nb_lf = [li for (t, first, li) in lines if nonblank(t)]     # call index of each non-blank line's LF
    codes = an.codes()
    done = [u.end for u in codes if u.complete]
    # (1) no byte is consumed while a complete non-blank line has no finished result code
    for (li, b) in an.reads:
        need = sum(1 for x in nb_lf if x < li)
        have = sum(1 for x in done if x < li)
        if have < need:
            v.append("input byte 0x%02x consumed at call %s while line #%d has no complete result code" % (b, an.lines[li].op, have + 1))
            break
    # (2) never more result codes than complete non-blank lines
    for k, u in enumerate(codes):
        avail = sum(1 for x in nb_lf if x <= u.start)
        if k + 1 > avail:
            v.append("result code #%d (%r) started at call %s but only %d non-blank lines were complete" % (k + 1, bytes(u.payload), an.lines[u.start].op, avail))
            break
    # (3) at quiescence every non-blank line has exactly one code
    if an.drained_ok() and an.lines[-1].q[1] == 0:
        if len(done) != len(nb_lf):
            v.append("after drain: %d non-blank lines consumed, %d result codes emitted" % (len(nb_lf), len(done)))
    return v


# ---------------------------------------------------------------------------------------
# C02 / C09: which handlers run for a line
# ---------------------------------------------------------------------------------------

def line_spans(an):
    """[(text, li_lf, li_end)] for consumed lines; li_end = call index at which the next line's first
    byte is read (or end of trace). Events of the command machine in [li_lf, li_end) belong to the line."""
    ls = an.consumed_lines()
    spans = []
    for k, (t, first, li) in enumerate(ls):
        end = len(an.lines)
        # next read after this LF
        for (lj, b) in an.reads:
            if lj > li:
                end = lj
                break
        spans.append((t, li, end))
    return spans


def line_first(an):
    """call index of the LF of a consumed line -> call index at which the line's first byte was read"""
    return {li: first for (_t, first, li) in an.consumed_lines()}


def cmd_events_in(an, a, b):
    ev = []
    for li in range(a, b):
        for e in an.ev[li]:
            if e[0] == "H" and e[3] == "c":
                ev.append(("H", e[1], e[2]))
            elif e[0] == "V" and e[5] == "c":
                ev.append(("V", e[3], e[1], e[2]))
    return ev


def obs_C02(an):
    out = []
    for (t, a, b) in line_spans(an):
        codes = [bytes(u.payload) for u in an.codes() if a <= u.start < b]
        out.append((cmd_events_in(an, a, b), codes))
    return out


KIND_OF = {"run": "x", "read": "r", "write": "w", "test": "t"}


def oracle_C02(an, check_c09=False):
    if an.uns_hold:
        return None
    v = []
    ftl = flags_timeline(an)
    lfirst = line_first(an)
    for (t, a, b) in line_spans(an):
        if a >= len(ftl):
            continue
        fl = ftl[a]
        # flags must not change while the line is in progress (C09: changes are made between lines): from the call that read
        # the line's first byte to the call that reads the next line's first byte
        lo = lfirst.get(a)
        if any(an.op_of(li).startswith("flag") for li in range(a if lo is None else lo, b)):
            # flags changed near this line's life time: only the flag-independent part is judged —
            # whatever was enabled when, a command whose handler runs must be named by the line:
            # the name typed (the longest run of name characters behind AT) is a prefix of its name,
            # or its name is a prefix of what was typed (implicit write)
            tt = bytes(c for c in t if c != 13)
            body = bytes((c - 32 if 97 <= c <= 122 else c) for c in tt[2:])
            k = 0
            while k < len(body) and body[k] in NAMECH:
                k += 1
            nm = body[:k]
            for e in cmd_events_in(an, a, b):
                c = e[2] if e[0] == "H" else e[2]
                cn = up(an.scn.cmds[c].name)
                if not (cn.startswith(nm) or nm.startswith(cn)):
                    v.append("line %r ran a callback of command %d (%s), which the typed name %r does not name (flags were changed while the line was typed)" % (t, c, an.scn.cmds[c].name, nm))
                    break
            continue
        cl = classify(an.scn, fl, t)
        evs = cmd_events_in(an, a, b)
        codes = [bytes(u.payload) for u in an.codes() if a <= u.start < b]
        if cl["kind"] == "blank":
            if evs:
                v.append("blank line ran callbacks %r" % (evs,))
            continue
        if cl["kind"] in ("garbage", "empty") or cl.get("cmd") is None:
            if evs:
                v.append("line %r: no command selected but callbacks ran: %r" % (t, evs))
            want = OKP if cl["kind"] == "empty" else ERRP
            if codes and codes[0] != want:
                v.append("line %r: expected %r, got %r" % (t, want, codes[0]))
            continue
        cmd, ty = cl["cmd"], cl["type"]
        kind = KIND_OF[ty]
        for e in evs:
            if e[0] == "H" and (e[2] != cmd or e[1] != kind):
                v.append("line %r: selected command %d (%s) type %s but handler %s of command %d ran" % (t, cmd, an.scn.cmds[cmd].name, ty, e[1], e[2]))
            if e[0] == "V":
                okk = (ty == "write" and e[1] == "w") or (ty == "read" and e[1] == "r")
                if e[2] != cmd or not okk:
                    v.append("line %r: selected command %d type %s but variable callback %s of command %d ran" % (t, cmd, ty, e[1], e[2]))
        # a selected command whose requested form is available must actually be served
        ccap = an.scn.buf if an.scn.uns >= 0 else an.scn.buf // 2
        c = an.scn.cmds[cmd]
        complete = bool(codes)
        if complete and accepts(an.scn, fl, cmd, ty):
            v += served_violations(an, t, cmd, ty, cl, evs, codes, ccap)
        if check_c09:
            form_ok = accepts(an.scn, fl, cmd, ty)
            if not form_ok:
                if evs:
                    v.append("line %r: form %s of command %d is unavailable (only_test/handler-less) but callbacks ran: %r" % (t, ty, cmd, evs))
                if codes and codes[0] != ERRP:
                    v.append("line %r: unavailable form answered %r" % (t, codes[0]))
    return v


def served_violations(an, t, cmd, ty, cl, evs, codes, ccap):
    """a selected command whose requested form is available (`accepts`) must actually be served: where the
    first thing the dispatcher does for that form is to call the command's handler, the handler is called"""
    v = []
    c = an.scn.cmds[cmd]
    if ty == "run" and not any(e[0] == "H" and e[1] == "x" and e[2] == cmd for e in evs):
        v.append("line %r selects command %d (%s) for RUN, which is available, but its run handler was not invoked (answer %r)" % (t, cmd, c.name, codes[0]))
    if ty == "write" and "w" in c.h and not vars_accessible(c, 2) and len(cl["args"]) <= ccap - 1 and \
            not any(e[0] == "H" and e[1] == "w" and e[2] == cmd for e in evs):
        v.append("line %r selects command %d (%s) for WRITE, which is available, but its write handler was not invoked (answer %r)" % (t, cmd, c.name, codes[0]))
    # READ with a read handler and nothing readable among the variables: `NAME=` is formatted and the handler decides
    if ty == "read" and "r" in c.h and not vars_accessible(c, 1) and len(c.name) + 1 < ccap and \
            not any(e[0] == "H" and e[1] == "r" and e[2] == cmd for e in evs):
        v.append("line %r selects command %d (%s) for READ, which is available through its read handler, but the handler was not invoked (answer %r)" % (t, cmd, c.name, codes[0]))
    # TEST with a test handler and no variables and no description: `NAME=` is formatted and the handler decides
    if ty == "test" and "t" in c.h and not c.vars and c.desc is None and len(c.name) + 1 < ccap and \
            not any(e[0] == "H" and e[1] == "t" and e[2] == cmd for e in evs):
        v.append("line %r selects command %d (%s) for TEST, which is available through its test handler, but the handler was not invoked (answer %r)" % (t, cmd, c.name, codes[0]))
    return v


def obs_C09(an):
    return obs_C02(an)


def oracle_C09(an):
    r = oracle_C02(an, check_c09=True)
    if r is None:
        return None
    # additionally: no callback of a disabled command ever runs on behalf of the command machine,
    # and none of its variables changes (checked through slots only reachable from disabled commands)
    ftl = flags_timeline(an)
    for li in range(len(an.lines)):
        for e in an.ev[li]:
            if (e[0] == "H" and e[3] == "c") or (e[0] == "V" and e[5] == "c"):
                c = e[2] if e[0] == "H" else e[1]
                if 0 <= c < len(an.scn.cmds) and not ftl[li].enabled(an.scn, c):
                    # allowed only if the flag changed while the command was already in progress
                    if not any(an.op_of(lj).startswith("flag") for lj in range(max(0, li - 3000), li)):
                        r.append("handler of disabled command %d ran at call %s" % (c, an.lines[li].op))
                    else:
                        why = disabled_before_selection(an, ftl, li, c)
                        if why:
                            r.append("handler of command %d ran at call %s although %s" % (c, an.lines[li].op, why))
    return r


def disabled_before_selection(an, ftl, li, c):
    """command c is disabled at trace index li (a handler of it runs there).  It was disabled before
    the line could select it when, at the last moment it was still enabled, the bytes consumed of
    the current line held no name terminator ('=' or '?'; for an implicit-write command: nothing
    behind the AT prefix), the line's LF came later, and it has stayed disabled since."""
    ld = None
    for lj in range(li, -1, -1):
        if ftl[lj].enabled(an.scn, c):
            ld = lj
            break
    lfs = [idx for (idx, b) in an.reads if b == 10 and idx <= li]
    if not lfs:
        return None
    lf_cur = lfs[-1]
    lf_prev = lfs[-2] if len(lfs) > 1 else -1
    if ld is None:
        ld = -1
    if ld >= lf_cur:
        return None          # disabled after the line's LF: the command was already selected
    seen = bytes(b for (idx, b) in an.reads if lf_prev < idx <= ld and b != 13)
    # reads of the call ld itself precede the flag operation, which is a later operation
    if an.scn.cmds[c].implicit:
        if len(seen) > 2:
            return None
    elif b"=" in seen or b"?" in seen:
        return None
    return "it was disabled before the line named it (consumed so far: %r) and stayed disabled" % (seen,)


# ---------------------------------------------------------------------------------------
# C03
# ---------------------------------------------------------------------------------------

def obs_C03(an):
    """fault status, and for every call whether a buffer region changed while its machine was inactive"""
    viol = []
    for li in range(1, len(an.lines)):
        p, l = an.lines[li - 1], an.lines[li]
        if not an.is_svc(li) or len(p.st) < 3:
            continue
        cmd_active = p.st[0] != 0 or any(e[0] == "R" and e[1] is not None for e in an.ev[li])
        uns_active = p.st[1] != 0 or p.st[2] != 0
        if (not cmd_active and l.b[0] != p.b[0]) or (not uns_active and l.b[1] != p.b[1]):
            viol.append(l.op)
    return ("fault" if (an.tr.abort or an.tr.faults) else "clean"), viol


def oracle_C03(an):
    v = []
    if an.tr.abort:
        rep = an.tr.abort.strip().splitlines()
        v.append("sanitizer/assert abort after call %s: %s" % (an.lines[-1].op if an.lines else "-", (rep[1] if len(rep) > 1 else an.tr.abort)[:300]))
    # ownership of the two buffer regions: a region changes only in calls in which its machine was active
    # (machine activity is read from the diagnostic state fields)
    for li in range(1, len(an.lines)):
        p, l = an.lines[li - 1], an.lines[li]
        if not an.is_svc(li) or len(p.st) < 3:
            continue
        if any(e[0] == "L" and e[1] != 0 for e in an.ev[li][:1]):
            continue
        edits = "/e:" in an.op_of(li) or any("/e:" in o for o in an.scn.ops if o.startswith("hq"))
        cmd_active = p.st[0] != 0 or any(e[0] == "R" and e[1] is not None for e in an.ev[li])
        uns_active = p.st[1] != 0 or p.st[2] != 0
        if not cmd_active and l.b[0] != p.b[0]:
            v.append("the command region of the working buffer changed in call %s although the command machine was idle" % l.op)
            break
        if not uns_active and l.b[1] != p.b[1]:
            v.append("the unsolicited region of the working buffer changed in call %s although the unsolicited machine was idle with an empty queue" % l.op)
            break
    return v


# ---------------------------------------------------------------------------------------
# C04 / C05: reference argument parsing against slot contents
# ---------------------------------------------------------------------------------------

def slot_timeline(an):
    """slot contents after each trace line (list of dict slot->bytes), from init + m= fields"""
    cur = {i: bytes((ini + bytes(ln))[:ln]) for i, (ln, ini) in enumerate(an.scn.slots)}
    out = []
    for l in an.lines:
        for x in l.m:
            i, h = x.split(":")
            cur = dict(cur)
            cur[int(i)] = bytes.fromhex(h)
        out.append(cur)
    return out


def has_alias(scn, cmd):
    vs = scn.cmds[cmd].vars or []
    slots = [v.slot for v in vs]
    return len(set(slots)) != len(slots)


def write_lines(an):
    """for every WRITE line that reaches variable parsing: (text, args, cmd, a, b, flags)"""
    ftl = flags_timeline(an)
    res = []
    for (t, a, b) in line_spans(an):
        if a >= len(ftl):
            continue
        if any(an.op_of(li).startswith(("flag", "poke")) for li in range(max(0, a - 400), b)):
            continue
        cl = classify(an.scn, ftl[a], t)
        if cl["kind"] != "cmd" or cl["cmd"] is None or cl["type"] != "write":
            continue
        res.append((t, cl["args"], cl["cmd"], a, b, ftl[a]))
    return res


def obs_C04(an):
    return seq(an, {"lf", "mem"}) + [("V", e[1], e[2], e[3], e[4], e[6]) for e in seq(an, {"V"}) if e[3] == "w"] + \
        [hshort(e) for e in seq(an, {"Hc"}) if e[1] == "w"] + [bytes(u.payload) for u in an.codes()]


def oracle_C0405(an, numeric):
    if an.uns_hold:
        return None
    v = []
    mem = slot_timeline(an)
    cap = an.scn.buf if an.scn.uns >= 0 else an.scn.buf // 2
    for (t, args, cmd, a, b, fl) in write_lines(an):
        c = an.scn.cmds[cmd]
        if fl.cot[cmd] or not vars_accessible(c, 2) or has_alias(an.scn, cmd):
            continue
        if len(args) > cap - 1:
            continue      # over-long: C06
        # pokes / nested activity during the line make the memory reference unreliable
        if any(e[0] == "N" for li in range(a, b) for e in an.ev[li]):
            continue
        if any("/p:" in an.op_of(li) for li in range(a, b)):
            continue
        before = mem[a - 1] if a > 0 else {i: bytes((ini + bytes(ln))[:ln]) for i, (ln, ini) in enumerate(an.scn.slots)}
        after = mem[b - 1]
        codes = [bytes(u.payload) for u in an.codes() if a <= u.start < b]
        vcb = [(li, e) for li in range(a, b) for e in an.ev[li] if e[0] == "V" and e[3] == "w"]
        hw = [e for li in range(a, b) for e in an.ev[li] if e[0] == "H" and e[1] == "w" and e[3] == "c"]
        # reference walk over the variables
        buf = bytes(args)
        if 0 in buf:
            # embedded NUL: text is not in any grammar once variables are parsed
            if codes and codes[0] != ERRP:
                v.append("args %r contain NUL but were answered %r" % (args, codes[0]))
            if hw:
                v.append("args %r contain NUL but the write handler ran" % (args,))
            continue
        pos = 0
        expect_err = False
        indeterminate = False
        exp = dict(before)
        k = 0
        st = 1
        fail_var = None
        while True:
            var = c.vars[k]
            st, npos, val = ref_parse_var(var, buf, pos)
            accepted = st >= 0
            stored = None
            if accepted and var.acc != 1:
                ok, stored = ref_fits(var, val)
                accepted = ok
            elif accepted:
                # read-only variable: the property leaves the verdict on its text open when the
                # value would not fit (the code applies its limits to read-only variables too)
                ok, _ = ref_fits(var, val)
                big = var.type in (0, 1, 2) and abs(val) > (1 << 63) - 1
                if not ok or big:
                    indeterminate = True
                    break
            is_num = var.type in (0, 1, 2)
            if not accepted:
                expect_err = True
                fail_var = k
                break
            if stored is not None:
                old = exp[var.slot]
                exp[var.slot] = stored + old[len(stored):]
            # variable write callback verdict
            if var.cb & 2:
                cbs = [e for (li, e) in vcb if e[2] == k]
                if cbs:
                    wsz = 0 if var.acc == 1 else (len(stored) - (1 if var.type == 4 else 0))
                    if cbs[0][4] != wsz and (is_num == numeric):
                        v.append("args %r var %d: write callback told size %d, expected %d" % (args, k, cbs[0][4], wsz))
                    if cbs[0][6] != 0:
                        expect_err = True
                        fail_var = None
                        break
            pos = npos
            k += 1
            if st == 0:
                break
            if k >= len(c.vars):
                expect_err = True   # more arguments than variables
                fail_var = None
                break
        if indeterminate:
            continue
        if not expect_err and c.need_all and k != len(c.vars):
            expect_err = True
            fail_var = None
        relevant = True
        if fail_var is not None:
            relevant = (c.vars[fail_var].type in (0, 1, 2)) == numeric
        if expect_err:
            if codes and codes[0] != ERRP and relevant:
                v.append("args %r for command %d must be rejected (variable %s) but answered %r" % (args, cmd, fail_var, codes[0]))
            if hw and relevant:
                v.append("args %r rejected but the write handler ran" % (args,))
            if fail_var is not None and relevant:
                var = c.vars[fail_var]
                if numeric:
                    if after[var.slot][:var.size] != exp[var.slot][:var.size]:
                        v.append("args %r: rejected numeric variable %d changed from %s to %s" % (args, fail_var, exp[var.slot][:var.size].hex(), after[var.slot][:var.size].hex()))
                else:
                    if after[var.slot][var.size:] != exp[var.slot][var.size:]:
                        v.append("args %r: bytes at or beyond data_size of variable %d changed" % (args, fail_var))
            # variables accepted before the failure hold their values
            for j in range(k if fail_var is None else fail_var):
                var = c.vars[j]
                if (var.type in (0, 1, 2)) == numeric and after[var.slot][:var.size] != exp[var.slot][:var.size] and fail_var is not None and c.vars[fail_var].slot != var.slot:
                    v.append("args %r: variable %d holds %s, expected %s" % (args, j, after[var.slot][:var.size].hex(), exp[var.slot][:var.size].hex()))
        else:
            okc = OKP
            if "w" in c.h:
                okc = None   # the handler decides
            if codes and okc and codes[0] != okc:
                v.append("args %r for command %d are well-formed and in range but answered %r" % (args, cmd, codes[0]))
            for j in range(k):
                var = c.vars[j]
                if (var.type in (0, 1, 2)) != numeric:
                    continue
                if after[var.slot] != exp[var.slot] and not hw:
                    v.append("args %r: variable %d slot holds %s, expected %s" % (args, j, after[var.slot].hex(), exp[var.slot].hex()))
            if "w" in c.h and not hw:
                v.append("args %r accepted but the write handler did not run" % (args,))
    return v


def oracle_C04(an):
    return oracle_C0405(an, True)


def obs_C05(an):
    return obs_C04(an)


def oracle_C05(an):
    return oracle_C0405(an, False)


# ---------------------------------------------------------------------------------------
# C06: what handlers are given
# ---------------------------------------------------------------------------------------

def obs_C06(an):
    out = []
    for e in seq(an, {"Hc", "Hu"}):
        if e[1] == "w":
            out.append(e[:8])
        else:
            # read/test/run handlers: what C06 promises is length = strlen, NUL inside, true capacity
            out.append((e[1], e[2], e[3], e[6] == len(e[4]), e[5], e[7]))
    return out, [bytes(u.payload) for u in an.codes()]


def parsed_count(c, args):
    """number of variables of command c that the argument text feeds, when every argument is accepted: numeric and hex-buffer
    arguments run to the next comma, a string argument from its opening quote to the closing one (a backslash takes the next
    byte with it); a command none of whose variables is writable has its text handed over unparsed.  None when the text cannot have been accepted (a handler call then says nothing about the count)."""
    if not c.vars or all(var.acc == 1 for var in c.vars):
        return 0            # nothing writable: the text goes to the handler unparsed
    args = bytes(args)
    i, n = 0, 0
    for var in c.vars:
        if var.type == 4:
            if i >= len(args) or args[i] != 34:
                return None
            i += 1
            while i < len(args) and args[i] != 34:
                i += 2 if args[i] == 92 else 1
            if i >= len(args):
                return None
            i += 1
        else:
            while i < len(args) and args[i] != 44:
                i += 1
        n += 1
        if i >= len(args):
            return n
        if args[i] != 44:
            return None
        i += 1
    return None


def oracle_C06(an):
    if an.uns_hold:
        return None
    v = []
    ccap = an.scn.buf if an.scn.uns >= 0 else an.scn.buf // 2
    ucap = an.scn.uns if an.scn.uns >= 0 else an.scn.buf // 2
    ftl = flags_timeline(an)
    for (t, a, b) in line_spans(an):
        if a >= len(ftl):
            continue
        if any(an.op_of(li).startswith("flag") for li in range(max(0, a - 400), b)):
            continue
        cl = classify(an.scn, ftl[a], t)
        hw = [e for li in range(a, b) for e in an.ev[li] if e[0] == "H" and e[1] == "w" and e[3] == "c"]
        if cl["kind"] == "cmd" and cl.get("cmd") is not None and cl["type"] == "write":
            args = cl["args"]
            codes = [bytes(u.payload) for u in an.codes() if a <= u.start < b]
            if len(args) > ccap - 1:
                evs = cmd_events_in(an, a, b)
                if evs:
                    v.append("over-long arguments (%d bytes, capacity %d) but callbacks ran: %r" % (len(args), ccap, evs[:3]))
                if codes and codes[0] != ERRP:
                    v.append("over-long arguments answered %r" % codes[0])
                if any(an.lines[li].m for li in range(a, b)) and not any(e[0] == "N" or "/p:" in an.op_of(li) for li in range(a, b) for e in an.ev[li]):
                    v.append("over-long arguments modified a variable")
                continue
            for e in hw:
                if e[4] != args or e[6] != len(args) or not e[5]:
                    v.append("write handler got data=%r len=%d nul=%s, sent %r" % (e[4], e[6], e[5], args))
                want = parsed_count(an.scn.cmds[cl["cmd"]], args)
                if want is not None and e[7] != want:
                    v.append("write handler told %d variables were parsed, the arguments %r feed %d" % (e[7], args, want))
    for e in seq(an, {"Hc", "Hu"}):
        if e[1] in ("r", "t"):
            cap = ccap if e[3] == "c" else ucap
            if e[7] != cap:
                v.append("%s handler (%s machine) told capacity %d, real %d" % (e[1], e[3], e[7], cap))
            if e[6] != len(e[4]) or not e[5]:
                v.append("%s handler told length %d for text %r (nul inside capacity: %s)" % (e[1], e[6], e[4], e[5]))
            # every invocation of a test handler - the first one and every one after NEXT / DATA_NEXT - is
            # handed the automatically formatted text again, whatever an earlier invocation left in the buffer
            if e[1] == "t" and 0 <= e[2] < len(an.scn.cmds):
                c = an.scn.cmds[e[2]]
                exps = [expected_test_text(c, nl) for nl in (b"\n", b"\r\n")]
                if exps[0] is not None and bytes(e[4]) not in [bytes(x) for x in exps]:
                    v.append("test handler of command %d handed %r, automatically formatted text is %r" % (e[2], bytes(e[4]), exps[0]))
    return v


# ---------------------------------------------------------------------------------------
# C08
# ---------------------------------------------------------------------------------------

def obs_C08(an):
    ro, other = set(), set()
    for c in an.scn.cmds:
        for var in (c.vars or []):
            (ro if var.acc == 1 else other).add(var.slot)
    ro -= other
    changes = [x for l in an.lines for x in l.m if int(x.split(":")[0]) in ro]
    return changes, [bytes(u.payload) for u in an.units if u.complete and not u.raw and not u.is_code()]


def oracle_C08(an):
    """RO slots (reachable only through read-only variables) never change except by the
    application's own pokes; READ/WRITE refused when nothing is readable/writable."""
    v = []
    ro, other = set(), set()
    for c in an.scn.cmds:
        for var in (c.vars or []):
            (ro if var.acc == 1 else other).add(var.slot)
    ro -= other
    if not ro:
        return v
    for li, l in enumerate(an.lines):
        if l.m and "poke" not in an.op_of(li) and "/p:" not in an.op_of(li):
            for x in l.m:
                if int(x.split(":")[0]) in ro:
                    v.append("read-only slot %s changed at call %s (op %r)" % (x.split(":")[0], l.op, an.op_of(li)))
    return v


# ---------------------------------------------------------------------------------------
# C10: return codes -> response
# ---------------------------------------------------------------------------------------

def obs_C10(an):
    out = []
    for e in seq(an, {"Hc", "Hu", "V", "unit"}):
        if e[0] == "H":
            out.append(hshort(e))
        elif e[0] == "V":
            out.append(("V", e[1], e[2], e[3], e[5], e[6]))
        else:
            out.append(("unit", e[1], e[2], e[4]))
    return out


def fsm_items(an, f):
    """items of one machine in temporal order: ('lf',), ('H',kind,cmd,ret,data,li), ('V',kind,ret), ('data',payload), ('raw',payload), ('code',ok), ('idle',)"""
    items = []
    uend = {}
    for u in an.units:
        if u.fsm == f and u.complete:
            uend.setdefault(u.end, []).append(u)
    prev_pu = -1
    for li, l in enumerate(an.lines):
        for e in an.ev[li]:
            if e[0] == "R" and e[1] == 10 and f == "c":
                items.append(("lf",))
            elif e[0] == "H" and e[3] == f:
                items.append(("H", e[1], e[2], e[8], e[4], li))
            elif e[0] == "V" and e[5] == f:
                items.append(("V", e[3], e[6]))
        for u in uend.get(li, []):
            if u.is_code():
                items.append(("code", bytes(u.payload) == OKP))
            elif u.raw:
                items.append(("raw", bytes(u.payload)))
            else:
                items.append(("data", bytes(u.payload)))
        if f == "u":
            pu = l.q[4]
            if pu == -1 and prev_pu != -1:
                items.append(("idle",))
            prev_pu = pu
    return items


def oracle_C10(an):
    if an.uns_hold:
        return None
    v = []
    # PRINT_CMD_LIST_OK: what follows is the command list, whole and in order (the rule of C19), also while
    # unsolicited events are being sent
    v += [x for x in (oracle_C19(an) or []) if x.startswith("command list")]
    all_edits = [bytes.fromhex(a) for o in an.scn.ops for a in re.findall(r"/e:x([0-9a-f]*)", o)]
    for f in ("c", "u"):
        it = fsm_items(an, f)
        n = len(it)
        for k, x in enumerate(it):
            if x[0] != "H":
                continue
            kind, cmd, ret, data, li = x[1], x[2], x[3], x[4], x[5]
            nxt = [y for y in it[k + 1:k + 6]]
            nk = nxt[0][0] if nxt else None
            if not nxt:
                continue   # trace ended
            def want(desc, cond):
                if not cond:
                    v.append("%s machine: %s handler of command %d returned %d: expected %s, got %r" % (f, kind, cmd, ret, desc, nxt[:3]))
            edits = all_edits
            if kind in ("r", "t"):
                if ret == 1:
                    want("one data line then re-invocation", nk == "data" and (nxt[0][1] == data or nxt[0][1] in edits))
                    if len(nxt) > 1:
                        want("re-format (variable callbacks / handler) or ERROR after the data line", nxt[1][0] in ("V", "H") or (nxt[1][0] == "code" and not nxt[1][1]) or (f == "u" and nxt[1][0] == "idle"))
                elif ret == 0:
                    want("one data line then OK", nk == "data" and (nxt[0][1] == data or nxt[0][1] in edits))
                    if len(nxt) > 1:
                        want("OK after the data line", (nxt[1] == ("code", True)) if f == "c" else nxt[1][0] == "idle")
                elif ret == 2:
                    want("re-invocation without data", nk in ("V", "H") or (nk == "code" and not nxt[0][1]) or (f == "u" and nk == "idle"))
                elif ret == 3 or ret == 5:
                    want("OK at once", (nxt[0] == ("code", True)) if f == "c" else nk == "idle")
                elif ret == 4:
                    pass   # hold: C14
                elif ret == 7 and kind == "t":
                    if f == "c":
                        want("command list then OK", nk in ("raw", "code"))
                    else:
                        want("event ends", nk == "idle")
                else:
                    want("ERROR at once", (nxt[0] == ("code", False)) if f == "c" else nk == "idle")
            else:
                if ret in (0, 3):
                    want("OK at once", nxt[0] == ("code", True))
                elif ret in (1, 2):
                    want("re-invocation", nk == "H" and nxt[0][1] == kind)
                elif ret == 4:
                    pass
                elif ret == 7 and kind == "x":
                    want("command list then OK", nk in ("raw", "code"))
                else:
                    want("ERROR at once", nxt[0] == ("code", False))
        # re-invocation (after NEXT / DATA_NEXT) is on a freshly formatted buffer: with unchanged variables
        # the text equals the one given to the first invocation of the request
        first = None
        for k, x in enumerate(it):
            if x[0] in ("lf", "idle", "code"):
                first = None
            elif x[0] == "H" and x[1] in ("r", "t"):
                li = x[5]
                if first is None:
                    first = x
                else:
                    quiet = not any(an.lines[j].m for j in range(first[5], li + 1)) and not any(
                        ("/p:" in an.op_of(j) or an.op_of(j).startswith("poke")) for j in range(first[5], li + 1))
                    quiet = quiet and not any("/p:" in o for o in an.scn.ops if o.startswith(("hq", "vq")))
                    # an event's text embeds the line break in force, which follows the command
                    # machine's cr_flag and may change between two formats of the same event
                    norm = (lambda b: bytes(b).replace(b"\r\n", b"\n")) if f == "u" else (lambda b: bytes(b))
                    if quiet and x[1] == first[1] and x[2] == first[2] and norm(x[4]) != norm(first[4]):
                        v.append("%s machine: %s handler of command %d re-invoked on buffer %r, but the freshly formatted text is %r" % (f, x[1], x[2], x[4], first[4]))
                        break
        # variable callback failure aborts before the handler
        for k, x in enumerate(it):
            if x[0] == "V" and x[2] != 0 and k + 1 < n:
                y = it[k + 1]
                if f == "c":
                    if y != ("code", False):
                        v.append("c machine: variable callback failed but next is %r" % (y,))
                else:
                    if y[0] != "idle":
                        v.append("u machine: variable callback failed but next is %r" % (y,))
        # data lines only where a code asked for one (or the automatic response)
        for k, x in enumerate(it):
            if x[0] == "data":
                prev = [y for y in it[:k] if y[0] != "V"]
                p = prev[-1] if prev else None
                ok = p is None or p[0] in ("lf", "idle", "code") or (p[0] == "H" and p[3] in (0, 1)) or p[0] == "data" and False
                if p is not None and p[0] == "data":
                    ok = False
                if not ok:
                    v.append("%s machine: data line %r not asked for (previous item %r)" % (f, x[1], p))
    return v


# ---------------------------------------------------------------------------------------
# C11: whole units, no interleaving
# ---------------------------------------------------------------------------------------

def obs_C11(an):
    return [(u.fsm, u.raw, bytes(u.pre), bytes(u.payload), bytes(u.post), u.complete) for u in an.units]


def oracle_C11(an):
    if an.uns_hold:
        return None     # an event handler answering HOLD abandons the command machine's unit (DESIGN.md 2.3)
    v = []
    NL = (b"\n", b"\r\n")
    open_u = None
    idx = {}
    # walk bytes in global order and make sure units do not interleave
    cur = {"c": None, "u": None}
    pos = 0
    for u in an.units:
        if u.fsm == "?":
            v.append("output byte written while neither or both machines were flushing (call %s)" % an.lines[u.start].op)
    # contiguity: the calls spanned by incomplete->complete units of different machines must not overlap
    spans = [(u.start, u.end, u) for u in an.units if u.fsm in "cu"]
    # detailed byte-level check
    owner = None
    remaining = {}
    ulist = {"c": [u for u in an.units if u.fsm == "c"], "u": [u for u in an.units if u.fsm == "u"]}
    ptr = {"c": 0, "u": 0}
    off = {"c": 0, "u": 0}
    for (li, b, f, part) in an.outs:
        if f not in ulist:
            continue
        u = ulist[f][ptr[f]]
        total = len(u.pre) + len(u.payload) + len(u.post)
        if owner is not None and owner != f:
            v.append("byte of the %s machine at call %s inside an unfinished unit of the other machine" % (f, an.lines[li].op))
            break
        off[f] += 1
        owner = f
        if off[f] == total:
            ptr[f] += 1
            off[f] = 0
            owner = None
    for f in "cu":
        us = ulist[f]
        for k, u in enumerate(us):
            last = k == len(us) - 1
            if not u.complete and not last:
                v.append("unit %r of the %s machine was not completed before the next one" % (u, f))
            if u.complete and not u.raw:
                if bytes(u.pre) not in NL or bytes(u.post) not in NL:
                    v.append("unit %r has malformed newlines" % (u,))
            if u.complete and u.raw and not bytes(u.payload).endswith(b"\n"):
                v.append("raw unit %r malformed" % (u,))
        if an.drained_ok() and us and not us[-1].complete:
            v.append("at quiescence the last unit %r of the %s machine is incomplete" % (us[-1], f))
    return v


# ---------------------------------------------------------------------------------------
# C12: refused reads/writes change nothing (single-trace part)
# ---------------------------------------------------------------------------------------

def refusal_only(an, li):
    evs = [e for e in an.ev[li] if e[0] not in ("L", "U")]
    return bool(evs) and all((e[0] == "R" and e[1] is None) or (e[0] == "W" and not e[2]) for e in evs)


def obs_C12(an):
    """calls in which every io attempt was refused: result, and whether anything observable changed"""
    out = []
    for li in range(1, len(an.lines)):
        if an.is_svc(li) and refusal_only(an, li):
            p, l = an.lines[li - 1], an.lines[li]
            out.append((l.ret, l.q == p.q, l.b == p.b, not l.m))
    return sorted(set(out))


def oracle_C12(an):
    """a refused write is retried with the same byte; every accepted byte once (via unit structure, C11);
    a call whose only event is a refused read/write changes no query result"""
    v = []
    pending = {"c": None, "u": None}
    for li in range(len(an.lines)):
        for e in an.ev[li]:
            if e[0] == "W":
                f = e[3]
                if f in pending:
                    if pending[f] is not None and pending[f] != e[1]:
                        v.append("%s machine: byte 0x%02x was refused, but 0x%02x is offered next (call %s)" % (f, pending[f], e[1], an.lines[li].op))
                    pending[f] = None if e[2] else e[1]
    return v


# ---------------------------------------------------------------------------------------
# C13: event queue
# ---------------------------------------------------------------------------------------

def obs_C13(an):
    out = []
    for li, l in enumerate(an.lines):
        t = an.op_of(li).split()
        if t and t[0] in ("trig", "trigr", "trigt", "full", "buffered"):
            out.append((t[0], l.ret))
    pu = []
    for l in an.lines:
        x = (l.q[4], l.q[2])
        if not pu or pu[-1] != x:
            pu.append(x)
    return out, pu, [e for e in seq(an, {"N"}) if e[1] == "t"], [hshort(e) for e in seq(an, {"Hu"})], [(u.payload) for u in an.units if u.fsm == "u" and u.complete]


def oracle_C13(an):
    v = []
    cap = an.scn.cap
    queue = []
    inprog = None
    prev_pu = -1
    for li, l in enumerate(an.lines):
        t = an.op_of(li).split()
        op = t[0]
        lockfail = any(e[0] == "L" and e[1] != 0 for e in an.ev[li][:1])
        unlockfail = any(e[0] == "U" and e[1] != 0 for e in an.ev[li][-1:])
        if op in ("trig", "trigr", "trigt"):
            c = int(t[1])
            ty = 1 if op == "trigr" else 3 if op == "trigt" else int(t[2])
            if lockfail:
                continue
            # accepted or refused, the call leaves nothing behind: a lock it took is released again
            if an.ev[li] and an.ev[li][0][0] == "L" and not any(e[0] == "U" for e in an.ev[li]):
                v.append("trigger at op %s (%d of %d waiting) took the mutex and returned %d without releasing it" % (l.op, len(queue), cap, l.ret))
                return v
            if len(queue) < cap:
                queue.append((c, ty))
                exp = 0
            else:
                exp = -5
            if not unlockfail and l.ret != exp:
                v.append("trigger at op %s returned %d with %d of %d waiting (expected %d)" % (l.op, l.ret, len(queue) - (1 if exp == 0 else 0), cap, exp))
                return v
        elif op == "full":
            if not lockfail and not unlockfail:
                exp = -5 if len(queue) == cap else 0
                if l.ret != exp:
                    v.append("cat_is_unsolicited_buffer_full at op %s returned %d with %d of %d waiting" % (l.op, l.ret, len(queue), cap))
        elif op == "buffered":
            c, ty = int(t[1]), int(t[2])
            def m(x):
                return x is not None and x[0] == c and (ty == -1 or x[1] == ty)
            exp = 1 if (m(inprog) or any(m(x) for x in queue)) else 0
            if l.ret != exp:
                v.append("cat_is_unsolicited_event_buffered(%d,%d) at op %s returned %d, expected %d (in progress %r, waiting %r)" % (c, ty, l.op, l.ret, exp, inprog, queue))
        elif an.is_svc(li):
            if lockfail:
                continue
            popped = None
            if inprog is None and queue:
                popped = queue.pop(0)
                inprog = popped
            for e in an.ev[li]:
                if e[0] == "N" and e[1] == "t":
                    if len(queue) < cap:
                        queue.append((e[2][0], e[2][1]))
                        exp = 0
                    else:
                        exp = -5
                    if e[3] != exp:
                        v.append("nested trigger at call %s returned %d, expected %d" % (l.op, e[3], exp))
                        return v
                if e[0] == "H" and e[3] == "u":
                    if inprog is None or e[2] != inprog[0] or e[1] != ("r" if inprog[1] == 1 else "t"):
                        v.append("unsolicited handler %s of command %d ran at call %s but the event in progress is %r" % (e[1], e[2], l.op, inprog))
                        return v
        # an accepted event that can be started is started: after the call that takes it out of the queue the unsolicited
        # machine is working on it (a READ event of a command with something readable or a read handler, a TEST event of a
        # command with variables or whose description fits, the name fitting the buffer - whatever `only_test` says: that flag restricts
        # what the host may request, not what the application may announce)
        if an.is_svc(li) and not lockfail and popped is not None and 0 <= popped[0] < len(an.scn.cmds) and not an.tr.abort:
            pc = an.scn.cmds[popped[0]]
            ucap_ = an.scn.uns if an.scn.uns >= 0 else an.scn.buf // 2
            room = len(pc.name) + 1 + ((2 + len(pc.desc)) if pc.desc is not None else 0)
            startable = len(pc.name) + 2 < ucap_ and (
                (popped[1] == 1 and (vars_accessible(pc, 1) or "r" in pc.h)) or
                (popped[1] == 3 and (bool(pc.vars) or room + 1 < ucap_)))
            if startable and l.q[4] != popped[0]:
                v.append("event (command %d, type %d) was taken out of the queue at call %s and dropped without being processed" % (popped[0], popped[1], l.op))
                return v
        # observers after the call
        pu = l.q[4]
        if pu != -1:
            if inprog is None or pu != inprog[0]:
                v.append("cat_get_processed_command(unsolicited)=%d after call %s but the event in progress is %r" % (pu, l.op, inprog))
                return v
        else:
            inprog = None
        expfull = -5 if len(queue) == cap else 0
        if l.q[2] != expfull:
            v.append("buffer_full query %d after call %s but %d of %d waiting" % (l.q[2], l.op, len(queue), cap))
            return v
    if an.drained_ok() and (queue or inprog):
        v.append("quiescent but events left: waiting %r, in progress %r" % (queue, inprog))
    return v


# ---------------------------------------------------------------------------------------
# C14: hold
# ---------------------------------------------------------------------------------------

def obs_C14(an):
    out = []
    for li, l in enumerate(an.lines):
        t = an.op_of(li).split()
        if t and t[0] in ("hexit", "hold"):
            out.append((t[0], l.ret))
    held_reads = 0
    for li in range(1, len(an.lines)):
        if an.lines[li - 1].q[1] == 2:
            held_reads += sum(1 for e in an.ev[li] if e[0] == "R" and e[1] is not None)
    h = []
    for l in an.lines:
        if not h or h[-1] != l.q[1]:
            h.append(l.q[1])
    return out, h, [e for e in seq(an, {"N"}) if e[1] == "x"], held_reads


def oracle_C14(an):
    if an.uns_hold:
        return None
    v = []
    held = False          # reference: a command handler returned HOLD and no result code has been started since
    req = None            # latest accepted release request: True = OK
    released = False
    cstart = {}
    for u in an.codes():
        cstart.setdefault(u.start, []).append(u)
    waited = 0
    bound = 2 * (an.scn.buf + max(an.scn.uns, 0)) + 100
    for li, l in enumerate(an.lines):
        t = an.op_of(li).split()
        op = t[0]
        was_held_flag = an.lines[li - 1].q[1] == 2 if li > 0 else False
        lockfail = any(e[0] == "L" and e[1] != 0 for e in an.ev[li][:1])
        if op == "hexit" and not lockfail:
            unlockfail = any(e[0] == "U" and e[1] != 0 for e in an.ev[li][-1:])
            exp = 0 if was_held_flag else -6
            if not unlockfail and l.ret != exp:
                v.append("cat_hold_exit at op %s returned %d, hold flag was %s" % (l.op, l.ret, was_held_flag))
            if was_held_flag:
                req = int(t[1]) == 0
        if op == "hold" and not lockfail:
            unlockfail = any(e[0] == "U" and e[1] != 0 for e in an.ev[li][-1:])
            if not unlockfail and l.ret != (2 if was_held_flag else 0):
                v.append("cat_is_hold at op %s returned %d, flag %s" % (l.op, l.ret, was_held_flag))
        flag_now = was_held_flag
        enter_hold = False
        for e in an.ev[li]:
            if e[0] == "R" and e[1] is not None and held:
                v.append("input byte consumed at call %s while a command is held" % l.op)
            if e[0] == "W" and e[3] == "c" and held and not released:
                v.append("command output at call %s while held and not released" % l.op)
            if e[0] == "N" and e[1] == "x":
                exp = 0 if flag_now else -6
                if e[3] != exp:
                    v.append("nested cat_hold_exit at call %s returned %d, hold flag %s" % (l.op, e[3], flag_now))
                if flag_now:
                    req = e[2][0] == 0
            if e[0] == "H" and e[3] == "u" and e[8] in (5, 6) and flag_now:
                req = e[8] == 5
            if e[0] == "H" and e[3] == "c" and e[8] == 4:
                enter_hold = True      # takes effect when the handler has returned: API calls it makes
                                       # itself (logged after this event) still see the flag down
        if enter_hold:
            held, req, released = True, None, False
            flag_now = True
        for u in cstart.get(li, []):
            if held:
                if req is None:
                    v.append("result code %r started at call %s while held without a release request" % (bytes(u.payload), l.op))
                elif (bytes(u.payload) == OKP) != req:
                    v.append("released with %s but result code is %r" % ("OK" if req else "ERROR", bytes(u.payload)))
                held = False
        if held and req is not None:
            if not released:
                waited = 0
            released = True
            # promptness: once release has been requested, the result code starts as soon as the
            # output is free: at most one unsolicited unit (at most the unsolicited region plus line
            # breaks) may be in the way, whatever else the unsolicited machine has to do
            if an.is_svc(li) and not lockfail and not any(e[0] == "W" and not e[2] for e in an.ev[li]):
                waited += 1
                if waited == bound:
                    v.append("release requested but no result code started within %d further service calls with the output accepting every byte (last call %s)" % (bound, l.op))
        if li > 0 and not an.is_svc(li) and l.q[1] != an.lines[li - 1].q[1]:
            v.append("cat_is_hold changed from %d to %d across the non-service operation %r (op %s)" % (an.lines[li - 1].q[1], l.q[1], an.op_of(li), l.op))
        # the flag: HOLD while held and not yet released
        if held and req is None and l.q[1] != 2:
            v.append("cat_is_hold reports %d after call %s although a command is held" % (l.q[1], l.op))
        if not held and l.q[1] == 2:
            v.append("cat_is_hold reports HOLD after call %s although no command is held" % l.op)
    # a release request, accepted or refused ("has no effect"), gives back the lock it took
    for li, l in enumerate(an.lines):
        if an.op_of(li).split()[0] == "hexit" and an.ev[li] and an.ev[li][0][0] == "L" and an.ev[li][0][1] == 0 \
                and not any(e[0] == "U" for e in an.ev[li]):
            v.append("cat_hold_exit at op %s took the mutex and returned %d without releasing it" % (l.op, l.ret))
            break
    if not v:
        v += stuck_without_hold(an)
    return v


# ---------------------------------------------------------------------------------------
# C15
# ---------------------------------------------------------------------------------------

def obs_C15(an):
    """the facts C15 speaks about: OK followed by a non-quiet repeat; how each drain ended"""
    bad = 0
    for li in range(len(an.lines) - 1):
        l, n = an.lines[li], an.lines[li + 1]
        if an.is_svc(li) and an.is_svc(li + 1) and l.ret == 0 and an.opno(li + 1) - an.opno(li) <= 1:
            if an.opno(li) != an.opno(li + 1) and an.in_at_op[an.opno(li)] != an.in_at_op[an.opno(li + 1)]:
                continue
            if any(e[0] == "R" and e[1] is not None for e in an.ev[li + 1]):
                continue
            if n.ret not in (0, -2, -3) or not quiet_call(an, li + 1):
                bad += 1
    ends = []
    byop = {}
    for li, l in enumerate(an.lines):
        byop.setdefault(an.opno(li), []).append(li)
    for k, idxs in sorted(byop.items()):
        if an.optext[k].startswith("drain"):
            ends.append(an.lines[idxs[-1]].ret)
    return bad, ends


def quiet_call(an, li):
    """no successful read, no accepted write, no callback"""
    for e in an.ev[li]:
        if e[0] == "R" and e[1] is not None:
            return False
        if e[0] == "W" and e[2]:
            return False
        if e[0] in ("H", "V"):
            return False
    return True


def oracle_C15(an):
    v = []
    for li in range(len(an.lines) - 1):
        l, n = an.lines[li], an.lines[li + 1]
        if not (an.is_svc(li) and an.is_svc(li + 1)) or l.ret != 0:
            continue
        # adjacent operations with no stimulus in between: same drain, or consecutive op numbers with no `in`
        oa, ob = an.opno(li), an.opno(li + 1)
        if ob - oa > 1:
            continue
        if oa != ob and an.in_at_op[oa] != an.in_at_op[ob]:
            continue
        if any(e[0] == "L" and e[1] != 0 for e in an.ev[li + 1][:1]):
            continue
        # new stimulus can also come from a byte that was refused before (r=0) and is delivered now; a byte that the call
        # reporting OK could have had (reads allowed, nothing fed in between) is not new stimulus: OK was reported with input pending
        if any(e[0] == "R" and e[1] is not None for e in an.ev[li + 1]):
            t = an.optext[oa].split()
            rd_allowed = (t[0] == "svc" and t[1] == "1") or (t[0] == "drain" and t[2] == "1")
            if rd_allowed:
                v.append("cat_service returned OK at call %s with a byte waiting in the input (reads allowed, nothing fed since): the repeated call %s read %r and returned %d"
                         % (l.op, n.op, [e[1] for e in an.ev[li + 1] if e[0] == "R"], n.ret))
            continue
        if any(e[0] == "U" and e[1] != 0 for e in an.ev[li + 1][-1:]):
            continue
        if n.ret != 0 or not quiet_call(an, li + 1):
            v.append("cat_service returned OK at call %s but the repeated call %s returned %d with activity %r" % (l.op, n.op, n.ret, an.lines[li + 1].ev))
    # liveness: a default-answer drain with accepting io must end with OK (or a held command)
    byop = {}
    for li, l in enumerate(an.lines):
        byop.setdefault(an.opno(li), []).append(li)
    for k, idxs in byop.items():
        t = an.optext[k].split()
        if t[0] != "drain" or t[2] != "1" or t[3] != "1":
            continue
        # default answers, or one constant final answer for every handler (ERROR, DATA_OK, OK, HOLD_EXIT_*, PRINT_CMD_LIST_OK)
        if len(t) > 4 and not (len(t) == 5 and re.fullmatch(r"h=(-1|0|3|5|6|7)", t[4])):
            continue
        last = an.lines[idxs[-1]]
        # linear bound on the calls a drain may need: every input byte costs one read step plus one
        # table sweep, every response byte one write step (generous constants)
        ncmd = len([c for c in an.scn.cmds if c.group >= 0])
        pending_in = len(an.input)
        bound = 200 + 40 * (pending_in + 8) * (ncmd + 8) + 60 * an.scn.buf * (an.scn.cap + 2)
        # "never reached OK" is a finding when the drain was given at least `bound` calls, or when
        # the calls it used exceed what its observed progress explains (every byte read costs at
        # most one table sweep, every byte written a few steps, every callback a few steps)
        reads = sum(1 for j in idxs for e in an.ev[j] if e[0] == "R" and e[1] is not None)
        writes = sum(1 for j in idxs for e in an.ev[j] if e[0] == "W")
        cbs = sum(1 for j in idxs for e in an.ev[j] if e[0] in ("H", "V"))
        explained = 200 + reads * (2 * ncmd + 12) + writes * 6 + cbs * (4 * ncmd + 40)
        # output also has to be accounted for: every unit belongs to a line (result code, data, or
        # command-list lines) or to a callback round; units that keep coming without input or
        # callbacks are a livelock even though "progress" is made
        lo, hi = idxs[0], idxs[-1]
        units_here = sum(1 for u in an.units if u.complete and lo <= u.end <= hi)
        lines_in = bytes(an.input).count(b"\n")
        triggers = sum(1 for o in an.scn.ops if o.startswith("trig"))
        units_ok = 8 + lines_in * (3 + 5 * ncmd) + 3 * (triggers + an.scn.cap) + 3 * cbs
        if (last.ret != 0 and last.q[1] == 0 and len(idxs) >= int(t[1])
                and (int(t[1]) >= bound or len(idxs) > explained or units_here > units_ok)
                and not an.uns_hold and not an.tr.abort):
            v.append("drain of %d calls at op %d never reached OK (last ret %d)" % (len(idxs), k, last.ret))
        if last.ret == 0 and len(idxs) > bound:
            v.append("drain at op %d needed %d calls, bound %d" % (k, len(idxs), bound))
    return v


CROSS_C15 = {"drains_checked": 0, "max_calls_after_last_input": 0, "min_mu_minus_calls": None, "max_mu": 0}


def cross_C15(ai, am):
    """the implementation's drains against the model's liveness measure (`mu`, the 4th number of the
    model's st= field; theorem C15_liveness): once a drain with default (final) answers reads no
    further byte, every write is accepted, no mutex call fails and no command is held, the number
    of further calls until OK is at most mu + 1, mu taken from the model's state at that point."""
    v = []
    if len(ai.lines) != len(am.lines) or any(o.startswith(("hq", "vq")) for o in ai.scn.ops) or ai.tr.abort:
        return v
    byop = {}
    for li in range(len(ai.lines)):
        byop.setdefault(ai.opno(li), []).append(li)
    for k, idxs in byop.items():
        t = ai.optext[k].split()
        if t[0] != "drain" or t[3] != "1" or len(t) > 4:
            continue
        # last call of the drain that read a byte, refused a write, failed a mutex call or ran held
        j0 = idxs[0]
        for j in idxs:
            bad = any((e[0] == "R" and e[1] is not None) or (e[0] == "W" and not e[2]) or (e[0] in ("L", "U") and e[1] != 0) for e in ai.ev[j])
            if bad or ai.lines[j].q[1] == 2:
                j0 = j + 1
        if j0 > idxs[-1] or j0 == 0 or ai.lines[j0 - 1].q[1] == 2 or len(am.lines[j0 - 1].st) < 4:
            continue
        m = am.lines[j0 - 1].st[3]
        rest = idxs[-1] - j0 + 1
        CROSS_C15["drains_checked"] += 1
        CROSS_C15["max_calls_after_last_input"] = max(CROSS_C15["max_calls_after_last_input"], rest)
        CROSS_C15["max_mu"] = max(CROSS_C15["max_mu"], m)
        sl = m + 1 - rest
        if CROSS_C15["min_mu_minus_calls"] is None or sl < CROSS_C15["min_mu_minus_calls"]:
            CROSS_C15["min_mu_minus_calls"] = sl
        if rest > m + 1:
            v.append("drain at op %d: %d calls after the last input byte, the proven bound for the state reached there is %d + 1 (C15_liveness)" % (k, rest, m))
    return v


# ---------------------------------------------------------------------------------------
# C16 / C17 (sequential part): mutex discipline
# ---------------------------------------------------------------------------------------

LOCKING = ("svc", "drain", "busy", "hold", "full", "trig", "trigr", "trigt", "hexit")


def skeleton(an, li):
    s = []
    for e in an.ev[li]:
        if e[0] == "L":
            s.append("L%d" % e[1])
        elif e[0] == "U":
            s.append("U%d" % e[1])
        elif e[0] == "N":
            s.append("N")
        else:
            s.append(".")
    return s


def obs_C16(an):
    out = []
    for li, l in enumerate(an.lines):
        sk = skeleton(an, li)
        locks = [x for x in sk if x[0] in "LU"]
        out.append((locks, bool(sk) and sk[0][0] == "L", bool(sk) and sk[-1][0] == "U", l.ret if l.ret in (-2, -3) else None))
    return out


def oracle_C16(an):
    v = []
    for li, l in enumerate(an.lines):
        sk = skeleton(an, li)
        op = an.op_of(li).split()[0]
        if not an.scn.mutex or op not in LOCKING:
            if any(x[0] in "LU" for x in sk):
                v.append("lock/unlock used at op %s (%s) although %s" % (l.op, op, "no mutex is configured" if not an.scn.mutex else "this function does not lock"))
            continue
        if not sk or sk[0][0] != "L":
            v.append("op %s (%s): first action is not lock: %r" % (l.op, op, sk[:4]))
            continue
        if sk[0] != "L0":
            if len(sk) != 1:
                v.append("op %s: lock failed but the call went on: %r" % (l.op, sk[:6]))
            if l.ret != -3:
                v.append("op %s: lock failed but returned %d" % (l.op, l.ret))
            if l.m:
                v.append("op %s: lock failed but memory changed" % l.op)
            if li > 0 and (l.q != an.lines[li - 1].q or l.st != an.lines[li - 1].st):
                v.append("op %s: lock failed but the parser state changed" % l.op)
            continue
        if sk[-1][0] != "U":
            v.append("op %s: last action is not unlock: %r" % (l.op, sk[-4:]))
            continue
        # inner part: nested API calls made by handlers appear as L0 U0 N triples
        inner = sk[1:-1]
        k = 0
        while k < len(inner):
            if inner[k][0] == "L":
                if not (k + 2 < len(inner) + 0 and inner[k] == "L0" and inner[k + 1] == "U0" and inner[k + 2] == "N"):
                    v.append("op %s: lock taken twice / unbalanced inside the call: %r" % (l.op, sk))
                    break
                k += 3
                continue
            if inner[k][0] == "U":
                v.append("op %s: stray unlock inside the call: %r" % (l.op, sk))
                break
            k += 1
        if sk[-1] != "U0" and l.ret != -2:
            v.append("op %s: unlock failed but returned %d" % (l.op, l.ret))
        if sk[-1] == "U0" and l.ret in (-2, -3):
            v.append("op %s: mutex calls succeeded but returned %d" % (l.op, l.ret))
    return v


# ---------------------------------------------------------------------------------------
# C18
# ---------------------------------------------------------------------------------------

def obs_C18(an):
    """for every call after which cat_is_busy reports OK: was anything in flight? plus the hold flag history"""
    facts = []
    partial = bytearray()
    nb_done = 0
    rd_at = {}
    for (li, b) in an.reads:
        rd_at.setdefault(li, []).append(b)
    codes = sorted(u.end for u in an.codes() if u.complete)
    for li, l in enumerate(an.lines):
        for b in rd_at.get(li, []):
            if b == 10:
                if nonblank(partial):
                    nb_done += 1
                partial = bytearray()
            else:
                partial.append(b)
        if l.q[0] == 0:
            ncodes = sum(1 for e in codes if e <= li)
            inc = any(u.start <= li and (not u.complete or u.end > li) for u in an.units)
            facts.append((nonblank(partial), ncodes < nb_done, inc))
        elif an.is_svc(li) and l.ret == 0 and not nonblank(partial):
            facts.append("quiescent-but-busy")
    h = []
    for l in an.lines:
        if not h or h[-1] != l.q[1]:
            h.append(l.q[1])
    rets = [(an.op_of(li).split()[0], l.ret) for li, l in enumerate(an.lines) if an.op_of(li).split()[0] in ("busy", "hold")]
    return sorted(set(map(str, facts))), h, rets


def stuck_without_hold(an):
    """cat_is_hold returns HOLD iff a command is suspended: a parser that stops making progress for good — a drain with accepting
    io and final handler answers that never reaches OK (the C15 liveness rule, which only judges drains that end with
    cat_is_hold = not held) — is suspended without saying so"""
    try:
        return ["the parser is suspended without cat_is_hold reporting HOLD: " + x for x in oracle_C15(an) if "never reached OK" in x]
    except Exception:
        return []


def oracle_C18(an):
    if an.uns_hold:
        return None
    v = []
    nread = 0
    partial = bytearray()
    nb_done = 0
    codes = sorted((u.end, u) for u in an.codes() if u.complete)
    rd_at = {}
    for (li, b) in an.reads:
        rd_at.setdefault(li, []).append(b)
    open_units = {"c": False, "u": False}
    ulist = sorted(((u.start, u.end, u) for u in an.units), key=lambda x: x[0])
    for li, l in enumerate(an.lines):
        for b in rd_at.get(li, []):
            if b == 10:
                if nonblank(partial):
                    nb_done += 1
                partial = bytearray()
            else:
                partial.append(b)
        ncodes = sum(1 for (e, u) in codes if e <= li)
        incomplete = [u for (s, e, u) in ulist if s <= li and (not u.complete or e > li)]
        op = an.op_of(li).split()[0]
        if l.q[0] == 0:
            if nonblank(partial):
                v.append("cat_is_busy OK after call %s while line %r is partially received" % (l.op, bytes(partial)))
            if ncodes < nb_done:
                v.append("cat_is_busy OK after call %s while a command line is still being processed" % l.op)
            if incomplete:
                v.append("cat_is_busy OK after call %s while unit %r is partially emitted" % (l.op, incomplete[0]))
        elif an.is_svc(li) and l.ret == 0 and not nonblank(partial):
            v.append("parser quiescent (cat_service OK, no partial line) after call %s but cat_is_busy reports %d" % (l.op, l.q[0]))
        if op == "busy" and li > 0:
            lockfail = any(e[0] == "L" and e[1] != 0 for e in an.ev[li][:1])
            unlockfail = any(e[0] == "U" and e[1] != 0 for e in an.ev[li][-1:])
            if not lockfail and not unlockfail and l.ret != an.lines[li - 1].q[0]:
                v.append("cat_is_busy at op %s returned %d, sampled %d" % (l.op, l.ret, an.lines[li - 1].q[0]))
        if v:
            break
    h = oracle_C14(an)
    if h:
        v += [x for x in h if "cat_is_hold" in x]
    v += stuck_without_hold(an)
    return v


# ---------------------------------------------------------------------------------------
# C19: texts
# ---------------------------------------------------------------------------------------

def obs_C19(an):
    """command-list lines, and the data lines answering `=?` requests"""
    out = [(True, bytes(u.payload)) for u in an.units if u.fsm == "c" and u.complete and u.raw]
    for (t, a, b) in line_spans(an):
        tt = bytes(c for c in t if c != 13)
        if tt.endswith(b"=?"):
            out += [(False, bytes(u.payload)) for u in an.units if u.fsm == "c" and u.complete and not u.raw and a <= u.start < b]
    return out


def expected_test_text(c, nl):
    toks = []
    for var in (c.vars or []):
        t = info_token(var)
        if t is None:
            return None
        toks.append(t)
    s = c.name + b"=" + b",".join(toks)
    if c.desc is not None:
        s += nl + c.desc
    return s


def oracle_C19(an):
    if an.uns_hold:
        return None
    v = []
    # every invocation of a test handler is handed the complete automatically formatted line (all variables,
    # in order, then the description) - also on the rounds after NEXT / DATA_NEXT
    for e in seq(an, {"Hc", "Hu"}):
        if e[1] == "t" and 0 <= e[2] < len(an.scn.cmds):
            exps = [expected_test_text(an.scn.cmds[e[2]], nl) for nl in (b"\n", b"\r\n")]
            if exps[0] is not None and bytes(e[4]) not in [bytes(x) for x in exps]:
                v.append("test handler of command %d handed %r, the complete automatic line is %r" % (e[2], bytes(e[4]), exps[0]))
    ccap = an.scn.buf if an.scn.uns >= 0 else an.scn.buf // 2
    ftl = flags_timeline(an)
    for (t, a, b) in line_spans(an):
        if a >= len(ftl):
            continue
        if any(an.op_of(li).startswith("flag") for li in range(max(0, a - 400), b)):
            continue
        fl = ftl[a]
        cl = classify(an.scn, fl, t)
        if cl["kind"] != "cmd" or cl.get("cmd") is None:
            continue
        cmd = cl["cmd"]
        c = an.scn.cmds[cmd]
        cr = False
        seen = False
        for ch in t:
            if ch != 13:
                seen = True
            elif seen:
                cr = True
        nl = b"\r\n" if cr else b"\n"
        units = [u for u in an.units if u.fsm == "c" and a <= u.start < b and u.complete]
        hs = [e for li in range(a, b) for e in an.ev[li] if e[0] == "H" and e[3] == "c"]
        # what the list advertises is what the dispatcher accepts: the list is held against `accepts` below, and
        # here every request whose form `accepts` says is available must actually be served
        codes_l = [bytes(u.payload) for u in an.codes() if a <= u.start < b]
        if codes_l and accepts(an.scn, fl, cmd, cl["type"]):
            v += served_violations(an, t, cmd, cl["type"], cl, cmd_events_in(an, a, b), codes_l, ccap)
        if cl["type"] == "test" and not hs:
            exp = expected_test_text(c, nl)
            data = [u for u in units if not u.is_code() and not u.raw]
            codes = [u for u in units if u.is_code()]
            if exp is None or len(exp) >= ccap:
                if data:
                    v.append("TEST of command %d must be ERROR (unsupported width or text of %s bytes does not fit %d) but printed %r" % (cmd, None if exp is None else len(exp), ccap, bytes(data[0].payload)))
                if codes and bytes(codes[0].payload) != ERRP:
                    v.append("TEST of command %d must be ERROR, got %r" % (cmd, bytes(codes[0].payload)))
            elif "t" not in c.h:
                if not data or bytes(data[0].payload) != exp:
                    v.append("TEST response of command %d: expected %r, got %r" % (cmd, exp, bytes(data[0].payload) if data else None))
        # command list
        lists = [e for e in hs if e[8] == 7 and e[1] in ("x", "t")]
        if lists:
            raws = b"".join(bytes(u.payload) for u in units if u.raw)
            exp = b""
            trunc = False
            for i, cc in enumerate(an.scn.cmds):
                if cc.group < 0 or not fl.enabled(an.scn, i):
                    continue
                forms = []
                if cc.implicit and cc.vars:
                    continue_special = True
                else:
                    continue_special = False
                order = [("test", b"=?")] if fl.cot[i] else [("run", b""), ("read", b"?"), ("write", b"="), ("test", b"=?")]
                first = True
                for form, suf in order:
                    if continue_special:
                        break
                    if accepts(an.scn, fl, i, form) or (form == "test" and fl.cot[i] and ("t" in cc.h or (cc.vars is not None and len(cc.vars) > 0))):
                        line = (nl if first else b"") + b"AT" + cc.name + suf + nl
                        if len(line) >= ccap:
                            trunc = True
                            break
                        exp += line
                        first = False
                if trunc:
                    break
            has_special = any(cc.implicit and cc.vars and cc.group >= 0 and fl.enabled(an.scn, i) for i, cc in enumerate(an.scn.cmds))
            codes = [u for u in units if u.is_code()]
            if not has_special:
                if trunc:
                    if codes and bytes(codes[-1].payload) != ERRP:
                        v.append("command list line does not fit the buffer but the answer is %r" % bytes(codes[-1].payload))
                    if not raws == exp[:len(raws)] or len(raws) > len(exp):
                        v.append("command list before the overflow differs: got %r expected prefix of %r" % (raws, exp))
                elif codes:
                    if raws != exp:
                        v.append("command list: expected %r, got %r" % (exp, raws))
    return v


# ---------------------------------------------------------------------------------------
# C20: line ending mirrors the request (single-trace part)
# ---------------------------------------------------------------------------------------

def obs_C20(an):
    """newlines of the command machine's units (the payloads are other properties' business)"""
    return [(u.raw, bytes(u.pre), bytes(u.post), bytes(u.payload)[-2:] if u.raw else b"") for u in an.units if u.fsm == "c" and u.complete]


def oracle_C20(an):
    if an.uns_hold:
        return None
    v = []
    for (t, a, b) in line_spans(an):
        if not nonblank(t):
            continue
        cr = False
        seen = False
        for ch in t:
            if ch != 13:
                seen = True
            elif seen:
                cr = True
        nl = b"\r\n" if cr else b"\n"
        for u in an.units:
            if u.fsm == "c" and a <= u.start < b and u.complete:
                if u.raw:
                    good = bytes(u.payload).endswith(nl) and (cr or not bytes(u.payload).endswith(b"\r\n"))
                else:
                    good = bytes(u.pre) == nl and bytes(u.post) == nl
                if not good:
                    v.append("line %r (CR after first character: %s) answered with unit %r" % (t, cr, u))
    return v


# ---------------------------------------------------------------------------------------
# C07: formatting (single-trace part: READ text equals the reference text of the stored values)
# ---------------------------------------------------------------------------------------

def obs_C07(an):
    """data lines answering READ requests"""
    out = []
    for (t, a, b) in line_spans(an):
        tt = bytes(c for c in t if c != 13)
        if tt.endswith(b"?") and not tt.endswith(b"=?"):
            out += [bytes(u.payload) for u in an.units if u.fsm == "c" and u.complete and not u.raw and a <= u.start < b]
    return out


def oracle_C07(an):
    """automatic READ response equals the reference formatting of the current values (which the
    reference parser inverts: checked by the round-trip family through the implementation itself)"""
    if an.uns_hold:
        return None
    v = []
    mem = slot_timeline(an)
    ccap = an.scn.buf if an.scn.uns >= 0 else an.scn.buf // 2
    ftl = flags_timeline(an)
    for (t, a, b) in line_spans(an):
        if a >= len(ftl):
            continue
        if any(an.op_of(li).startswith(("flag", "poke")) for li in range(max(0, a - 400), b)):
            continue
        fl = ftl[a]
        cl = classify(an.scn, fl, t)
        if cl["kind"] != "cmd" or cl.get("cmd") is None or cl["type"] != "read":
            continue
        cmd = cl["cmd"]
        c = an.scn.cmds[cmd]
        if fl.cot[cmd] or not vars_accessible(c, 1):
            continue
        if any(var.cb & 1 for var in c.vars):
            continue
        if any(e[0] == "N" for li in range(a, b) for e in an.ev[li]) or any("/p:" in an.op_of(li) for li in range(a, b)):
            continue
        cur = mem[a]
        if "r" in c.h:
            # a read handler decides what is sent, but every time it is invoked - the first round and every round
            # after NEXT / DATA_NEXT - it is handed the automatic text of the current values, all variables in order
            toks = [fmt_var(var, cur[var.slot]) for var in c.vars]
            if all(x is not None for x in toks):
                exp = c.name + b"=" + b",".join(toks)
                if len(exp) < ccap and not any(l.m for l in an.lines[a:b]):
                    for li in range(a, b):
                        for e in an.ev[li]:
                            if e[0] == "H" and e[1] == "r" and e[3] == "c" and e[2] == cmd and bytes(e[4]) != exp:
                                v.append("read handler of command %d handed %r, the automatic text of the current values is %r" % (cmd, bytes(e[4]), exp))
            continue
        parts = []
        bad = False
        for var in c.vars:
            s = fmt_var(var, cur[var.slot])
            if s is None:
                bad = True
                break
            parts.append(s)
        units = [u for u in an.units if u.fsm == "c" and a <= u.start < b and u.complete]
        data = [u for u in units if not u.is_code()]
        codes = [u for u in units if u.is_code()]
        if bad:
            if data:
                v.append("READ of command %d with an unsupported width printed %r" % (cmd, bytes(data[0].payload)))
            continue
        exp = c.name + b"=" + b",".join(parts)
        if len(exp) >= ccap:
            if data:
                v.append("READ text of %d bytes does not fit %d but %r was printed" % (len(exp), ccap, bytes(data[0].payload)))
            continue
        if not data or bytes(data[0].payload) != exp:
            v.append("READ of command %d: expected %r, got %r" % (cmd, exp, bytes(data[0].payload) if data else None))
        elif codes and bytes(codes[0].payload) != OKP:
            v.append("READ of command %d printed but answered %r" % (cmd, bytes(codes[0].payload)))
    return v


def obs_C17(an):
    return obs_C16(an), obs_C13(an)


def oracle_C17(an):
    return (oracle_C16(an) or []) + (oracle_C13(an) or [])


OBS = {k[4:]: v for k, v in list(globals().items()) if k.startswith("obs_C")}
ORACLE = {k[7:]: v for k, v in list(globals().items()) if k.startswith("oracle_C") and len(k) == 10}
