#!/usr/bin/env python3
"""Translator (DESIGN.md 7.1): regenerates lean/CatVerif/Gen/Source.lean from the working tree's
src/cat.c and src/cat.h through clang's JSON AST.

 T1 enumerators and #defines;  T2 expression-bodied helpers;  T3 the four return-code switches;
 T4 the two state dispatchers (Gen/Dispatch.lean);  T5 which public functions are lock / body / unlock.

Every item is either regenerated ("translated") or, when its shape is not recognised, taken from
the committed expected copy (Gen/Source.expected.lean) and reported as "fallback" — the check
then relies on the correspondence run for that item (and says so in the evidence)."""
import json, os, re, subprocess, sys, hashlib
sys.path.insert(0, os.path.dirname(os.path.abspath(__file__)))
import lib

GEN = os.path.join(lib.LEAN, "CatVerif/Gen/Source.lean")
EXPECTED = os.path.join(lib.LEAN, "CatVerif/Gen/Source.expected.lean")
CAPMARK = 987654321


class Unrecognised(Exception):
    pass


def load_ast():
    src = os.path.join(lib.REPO, "src/cat.c")
    p = subprocess.run(["clang", "-fsyntax-only", "-DNDEBUG", "-DCAT_UNSOLICITED_CMD_BUFFER_SIZE=%d" % CAPMARK, "-Xclang",
                        "-ast-dump=json", "-I", os.path.join(lib.REPO, "src"), src], stdout=subprocess.PIPE, stderr=subprocess.PIPE)
    if p.returncode != 0:
        raise Unrecognised("clang failed: " + p.stderr.decode()[-300:])
    return json.loads(p.stdout)


def strip(n):
    """skip casts/parens that do not change the value for our purposes"""
    while n.get("kind") in ("ParenExpr", "ImplicitCastExpr", "ConstantExpr") and n.get("inner"):
        n = n["inner"][0]
    return n


# ------------------------------------------------------------------------------------ T1

def enums(ast):
    out = []
    vals = {}
    for n in ast["inner"]:
        if n.get("kind") == "EnumDecl":
            cur = -1
            for c in n.get("inner", []):
                if c.get("kind") != "EnumConstantDecl":
                    continue
                v = None
                for x in c.get("inner", []):
                    v = const_value(x, vals)
                cur = v if v is not None else cur + 1
                vals[c["name"]] = cur
                out.append((c["name"], cur))
    return out, vals


def const_value(n, vals):
    k = n.get("kind")
    if k == "ConstantExpr" and "value" in n:
        return int(n["value"])
    if k == "IntegerLiteral":
        return int(n["value"])
    if k in ("ParenExpr", "ImplicitCastExpr", "ConstantExpr"):
        return const_value(n["inner"][0], vals)
    if k == "UnaryOperator" and n.get("opcode") == "-":
        return -const_value(n["inner"][0], vals)
    if k == "DeclRefExpr":
        return vals[n["referencedDecl"]["name"]]
    if k == "BinaryOperator" and n.get("opcode") in ("|", "<<", "+", "&"):
        a, b = const_value(n["inner"][0], vals), const_value(n["inner"][1], vals)
        return {"|": a | b, "<<": a << b, "+": a + b, "&": a & b}[n["opcode"]]
    raise Unrecognised("enum initialiser " + k)


DEFINES = ["CAT_CMD_STATE_NOT_MATCH", "CAT_CMD_STATE_PARTIAL_MATCH", "CAT_CMD_STATE_FULL_MATCH",
           "CAT_WRITE_STATE_BEFORE", "CAT_WRITE_STATE_MAIN_BUFFER", "CAT_WRITE_STATE_AFTER"]


def defines():
    txt = open(os.path.join(lib.REPO, "src/cat.c")).read()
    hdr = open(os.path.join(lib.REPO, "src/cat.h")).read()
    out = []
    for d in DEFINES:
        m = re.search(r"#define\s+%s\s+\(\s*(\d+)U?\s*\)" % d, txt)
        if not m:
            raise Unrecognised("#define " + d)
        out.append((d, int(m.group(1))))
    m = re.search(r"#define\s+CAT_UNSOLICITED_CMD_BUFFER_SIZE\s+\(\(size_t\)\((\d+)\)\)", hdr)
    if not m:
        raise Unrecognised("#define CAT_UNSOLICITED_CMD_BUFFER_SIZE")
    out.append(("CAT_UNSOLICITED_CMD_BUFFER_SIZE_DEFAULT", int(m.group(1))))
    return out


# ------------------------------------------------------------------------------------ T2

def find_fn(ast, name):
    for n in ast["inner"]:
        if n.get("kind") == "FunctionDecl" and n.get("name") == name:
            for c in n.get("inner", []):
                if c.get("kind") == "CompoundStmt":
                    return n, c
    raise Unrecognised("function %s not found" % name)


def is_noise(st):
    """((void)0) left by assert under NDEBUG, and (void)param"""
    s = strip(st)
    return s.get("kind") == "CStyleCastExpr" and s.get("castKind") == "ToVoid" or st.get("kind") == "NullStmt"


def ret_expr(body):
    sts = [s for s in body.get("inner", []) if not is_noise(s)]
    if len(sts) != 1 or sts[0]["kind"] != "ReturnStmt":
        raise Unrecognised("body is not a single return")
    return sts[0]["inner"][0]


class Tr:
    """expression translator; `atoms` maps member-access paths / parameter names to (lean name, 'int'|'bool')"""

    def __init__(self, atoms, enumvals):
        self.atoms, self.ev = atoms, enumvals

    def path(self, n):
        n = strip(n)
        if n["kind"] == "MemberExpr":
            return self.path(n["inner"][0]) + "." + n["name"]
        if n["kind"] == "DeclRefExpr":
            return n["referencedDecl"]["name"]
        raise Unrecognised("path " + n["kind"])

    def is_null(self, n):
        n = strip(n)
        if n["kind"] == "CStyleCastExpr":
            return self.is_null(n["inner"][0])
        return n["kind"] == "IntegerLiteral" and n["value"] == "0"

    def b(self, n):
        """Lean Bool"""
        n0 = n
        n = strip(n)
        k = n["kind"]
        if k == "BinaryOperator":
            op = n["opcode"]
            l, r = n["inner"]
            if op in ("&&", "||"):
                return "(%s %s %s)" % (self.b(l), op, self.b(r))
            if op in ("==", "!=", "<", ">", "<=", ">="):
                # pointer against NULL
                for a, c in ((l, r), (r, l)):
                    if self.is_null(c) and strip(a)["kind"] in ("MemberExpr", "DeclRefExpr") and self._is_ptr(a):
                        nm, ty = self.atom(a)
                        if ty != "ptr":
                            raise Unrecognised("NULL comparison of non-pointer")
                        return nm if op == "!=" else "(!%s)" % nm
                # bool-typed atoms against false/true
                la, ra = self._boolatom(l), self._boolatom(r)
                if la is not None and self._lit01(r) is not None:
                    v = self._lit01(r)
                    pos = (op == "==") == (v == 1)
                    return "decide (%s %s %s)" % (la, "=" if op == "==" else "≠", "true" if v == 1 else "false") if True else None
                lean_op = {"==": "=", "!=": "≠", "<": "<", ">": ">", "<=": "≤", ">=": "≥"}[op]
                return "decide (%s %s %s)" % (self.i(l), lean_op, self.i(r))
        if k == "UnaryOperator" and n["opcode"] == "!":
            return "(!%s)" % self.b(n["inner"][0])
        if k == "ConditionalOperator":
            c, t, e = n["inner"]
            return "(if %s then %s else %s)" % (self.b(c), self.b(t), self.b(e))
        if k == "IntegerLiteral":
            return "true" if int(n["value"]) != 0 else "false"
        if k == "CallExpr":
            return self.call(n, "bool")
        la = self._boolatom(n0)
        if la is not None:
            return la
        return "decide (%s ≠ 0)" % self.i(n0)

    def _is_ptr(self, n):
        n = strip(n)
        return "*" in n.get("type", {}).get("qualType", "")

    def _lit01(self, n):
        n = strip(n)
        if n["kind"] == "IntegerLiteral" and n["value"] in ("0", "1"):
            return int(n["value"])
        return None

    def _boolatom(self, n):
        n = strip(n)
        if n["kind"] in ("MemberExpr", "DeclRefExpr"):
            try:
                nm, ty = self.atom(n)
            except Unrecognised:
                return None
            if ty == "bool":
                return nm
        if n["kind"] == "CallExpr":
            try:
                return self.call(n, "boolonly")
            except Unrecognised:
                return None
        return None

    def atom(self, n):
        n = strip(n)
        if n["kind"] == "DeclRefExpr" and n["referencedDecl"]["kind"] == "EnumConstantDecl":
            return n["referencedDecl"]["name"], "int"
        p = self.path(n)
        if p in self.atoms:
            return self.atoms[p]
        raise Unrecognised("unknown atom " + p)

    def call(self, n, want):
        callee = strip(n["inner"][0])
        name = callee["referencedDecl"]["name"]
        if name in self.atoms:      # calls of other translated helpers, by fixed argument convention
            lean, ty = self.atoms[name]
            if want == "boolonly" and ty != "bool":
                raise Unrecognised("not bool")
            if ty == "bool":
                return lean
            return lean if want != "bool" else "decide (%s ≠ 0)" % lean
        raise Unrecognised("call of " + name)

    def i(self, n):
        """Lean Int"""
        n0 = n
        n = strip(n)
        k = n["kind"]
        if k in ("IntegerLiteral", "CharacterLiteral"):
            v = int(n["value"])
            return "cap" if v == CAPMARK else str(v)
        if k == "DeclRefExpr" or k == "MemberExpr":
            nm, ty = self.atom(n)
            if ty == "bool":
                return "b2i %s" % nm
            if ty == "ptr":
                raise Unrecognised("pointer used as integer")
            return nm
        if k == "ConditionalOperator":
            c, t, e = n["inner"]
            return "(if %s then %s else %s)" % (self.b(c), self.i(t), self.i(e))
        if k == "BinaryOperator":
            op = n["opcode"]
            l, r = n["inner"]
            if op in ("+", "-", "*"):
                return "(%s %s %s)" % (self.i(l), op, self.i(r))
            if op == ">>":
                rv = strip(r)
                if rv["kind"] != "IntegerLiteral":
                    raise Unrecognised("shift by non-literal")
                return "(%s / %d)" % (self.i(l), 2 ** int(rv["value"]))
            if op in ("&&", "||", "==", "!=", "<", ">", "<=", ">="):
                return "b2i %s" % self.b(n)
        if k == "UnaryOperator" and n["opcode"] == "!":
            return "b2i %s" % self.b(n)
        if k == "CStyleCastExpr":
            ty = n["type"]["qualType"]
            inner = self.i(n["inner"][0])
            if ty == "uint8_t":
                return "(%s %% 256)" % inner
            if ty in ("size_t", "int", "unsigned int", "uint64_t", "char"):
                return inner
            raise Unrecognised("cast to " + ty)
        if k == "CallExpr":
            return self.call(n, "int")
        raise Unrecognised("expression " + k)


def t2(ast, ev):
    out = []
    rep = {}

    def emit(cname, sig, rty, atoms, item=None, kind="i"):
        try:
            _, body = find_fn(ast, cname)
            tr = Tr(atoms, ev)
            e = ret_expr(body)
            txt = tr.b(e) if kind == "b" else tr.i(e)
            if kind == "ib":     # int-returning predicate written as C 0/1
                txt = "b2i %s" % tr.b(e)
            out.append("def %s %s : %s := %s" % (item or cname, sig, rty, txt))
            rep[item or cname] = "translated"
        except Unrecognised as ex:
            out.append(None)
            rep[item or cname] = "fallback: %s" % ex
        return

    ch = {"ch": ("ch", "int")}
    emit("to_upper", "(ch : Int)", "Int", ch)
    emit("is_valid_cmd_name_char", "(ch : Int)", "Int", ch, kind="ib")
    emit("is_valid_dec_char", "(ch : Int)", "Int", ch, kind="ib")
    emit("is_valid_hex_char", "(ch : Int)", "Int", ch, kind="ib")
    emit("convert_hex_char_to_value", "(ch : Int)", "Int", ch)
    st = {"self.state": ("state", "int"), "self.unsolicited_fsm.state": ("ustate", "int"),
          "self.hold_state_flag": ("hold_state_flag", "bool"),
          "self.unsolicited_fsm.unsolicited_cmd_buffer_items_count": ("items_count", "int"),
          "self.desc.unsolicited_buf": ("unsolicited_buf_nonnull", "ptr"), "self.desc.buf_size": ("buf_size", "int"),
          "self.desc.unsolicited_buf_size": ("unsolicited_buf_size", "int")}
    emit("is_busy", "(state ustate : Int)", "Int", st)
    emit("is_hold", "(hold_state_flag : Bool)", "Int", st)
    emit("is_unsolicited_buffer_full", "(items_count cap : Int)", "Bool", st, kind="b")
    emit("is_unsolicited_buffer_empty", "(items_count : Int)", "Bool", st, kind="b")
    emit("is_unsolicited_fsm_busy", "(ustate : Int)", "Bool", st, kind="b")
    emit("get_atcmd_buf_size", "(unsolicited_buf_nonnull : Bool) (buf_size _unsolicited_buf_size : Int)", "Int", st)
    emit("get_unsolicited_buf_size", "(unsolicited_buf_nonnull : Bool) (buf_size unsolicited_buf_size : Int)", "Int", st)
    # offset of the shared unsolicited half: &self->desc->buf[self->desc->buf_size >> 1]
    try:
        _, body = find_fn(ast, "get_unsolicited_buf")
        e = strip(ret_expr(body))
        if e["kind"] != "ConditionalOperator":
            raise Unrecognised("get_unsolicited_buf not a conditional")
        alt = strip(e["inner"][2])
        while alt["kind"] in ("CStyleCastExpr", "UnaryOperator"):
            alt = strip(alt["inner"][0])
        if alt["kind"] != "ArraySubscriptExpr":
            raise Unrecognised("get_unsolicited_buf: no array subscript")
        idx = alt["inner"][1]
        out.append("def get_unsolicited_buf_offset (buf_size : Int) : Int := %s" % Tr(st, ev).i(idx))
        rep["get_unsolicited_buf_offset"] = "translated"
    except Unrecognised as ex:
        out.append(None)
        rep["get_unsolicited_buf_offset"] = "fallback: %s" % ex
    # the final status merge of cat_service: if (<cond>) s = CAT_STATUS_BUSY;
    try:
        _, body = find_fn(ast, "cat_service")
        cond = None
        for stt in body["inner"]:
            if stt["kind"] == "IfStmt":
                then = stt["inner"][1]
                asg = [x for x in ([then] if then["kind"] != "CompoundStmt" else then["inner"])]
                if len(asg) == 1 and strip(asg[0]).get("kind") == "BinaryOperator" and strip(asg[0]).get("opcode") == "=":
                    lhs, rhs = strip(asg[0])["inner"]
                    if strip(lhs).get("referencedDecl", {}).get("name") == "s" and strip(rhs).get("referencedDecl", {}).get("name") == "CAT_STATUS_BUSY":
                        cond = stt["inner"][0]
        if cond is None:
            raise Unrecognised("status merge not found")
        atoms = dict(st)
        atoms.update({"unsolicited_stat": ("unsolicited_stat", "int"),
                      "is_unsolicited_fsm_busy": ("is_unsolicited_fsm_busy ustate", "bool"),
                      "is_unsolicited_buffer_empty": ("is_unsolicited_buffer_empty items_count", "bool"),
                      "is_unsolicited_buffer_full": ("is_unsolicited_buffer_full items_count cap", "bool")})
        txt = Tr(atoms, ev).b(cond)
        if "cap" in txt:
            raise Unrecognised("status merge depends on the capacity")
        out.append("/-- the condition under which `cat_service` overrides its result with BUSY -/\n"
                   "def service_merge (unsolicited_stat ustate items_count : Int) : Bool := %s" % txt)
        rep["service_merge"] = "translated"
    except Unrecognised as ex:
        out.append(None)
        rep["service_merge"] = "fallback: %s" % ex
    return out, rep


# ------------------------------------------------------------------------------------ T3

AFTER = {"CAT_STATE_AFTER_FLUSH_RESET": "reset", "CAT_STATE_AFTER_FLUSH_OK": "ok", "CAT_STATE_AFTER_FLUSH_FORMAT_READ_ARGS": "fmtRead",
         "CAT_STATE_AFTER_FLUSH_FORMAT_TEST_ARGS": "fmtTest", "CAT_STATE_PRINT_CMD": "printCmd",
         "CAT_UNSOLICITED_STATE_AFTER_FLUSH_RESET": "reset", "CAT_UNSOLICITED_STATE_AFTER_FLUSH_OK": "ok",
         "CAT_UNSOLICITED_STATE_AFTER_FLUSH_FORMAT_READ_ARGS": "fmtRead", "CAT_UNSOLICITED_STATE_AFTER_FLUSH_FORMAT_TEST_ARGS": "fmtTest"}


def call_to_lean(st, fsm):
    """one statement of a switch arm -> Call constructor text; fsm: None (both), 'cmd', 'uns'"""
    e = strip(st)
    if e["kind"] != "CallExpr":
        raise Unrecognised("arm statement " + e["kind"])
    name = strip(e["inner"][0])["referencedDecl"]["name"]
    args = [strip(a) for a in e["inner"][1:]]

    def const(a):
        if a["kind"] == "DeclRefExpr":
            return a["referencedDecl"]["name"]
        raise Unrecognised("non-constant argument")
    simple = {"ack_ok": ".ackOk", "ack_error": ".ackError", "enable_hold_state": ".enableHold", "start_print_cmd_list": ".startPrintCmdList"}
    if name in simple:
        return simple[name]
    if name in ("end_processing_with_ok", "end_processing_with_error", "start_processing_format_read_args", "start_processing_format_test_args"):
        if const(args[1]) != "fsm":
            raise Unrecognised("%s not called with fsm" % name)
        return {"end_processing_with_ok": ".endOk", "end_processing_with_error": ".endError",
                "start_processing_format_read_args": ".startFormatRead", "start_processing_format_test_args": ".startFormatTest"}[name]
    if name == "start_flush_io_buffer":
        if fsm == "uns":
            raise Unrecognised("command-machine flush in the unsolicited branch")
        a = const(args[1])
        if not a.startswith("CAT_STATE_") or a not in AFTER:
            raise Unrecognised("flush target " + a)
        return ".startFlush .%s" % AFTER[a]
    if name == "unsolicited_start_flush_io_buffer":
        if fsm != "uns":
            raise Unrecognised("unsolicited flush outside the unsolicited branch")
        a = const(args[1])
        if not a.startswith("CAT_UNSOLICITED_STATE_") or a not in AFTER:
            raise Unrecognised("flush target " + a)
        return ".startFlush .%s" % AFTER[a]
    if name == "hold_exit":
        a = const(args[1])
        if a == "CAT_STATUS_OK":
            return ".holdExit true"
        if a == "CAT_STATUS_ERROR":
            return ".holdExit false"
        raise Unrecognised("hold_exit status " + a)
    raise Unrecognised("call of %s in a switch arm" % name)


def arm_calls(stmts, fsm, per_fsm):
    """statements of one arm (up to break) -> either list of call texts, or {'cmd': [...], 'uns': [...]}"""
    res = []
    for st in stmts:
        k = st["kind"]
        if k == "BreakStmt":
            break
        if is_noise(st):
            continue
        if k == "SwitchStmt" and per_fsm:
            cond = strip(st["inner"][0])
            if cond.get("referencedDecl", {}).get("name") != "fsm":
                raise Unrecognised("nested switch not on fsm")
            arms = switch_arms(st, None, False)
            d = {}
            for labels, body in arms:
                for lb in labels:
                    if lb == "CAT_FSM_TYPE_ATCMD":
                        d["cmd"] = arm_calls(body, "cmd", False)
                    elif lb == "CAT_FSM_TYPE_UNSOLICITED":
                        d["uns"] = arm_calls(body, "uns", False)
            if set(d) != {"cmd", "uns"} or res:
                raise Unrecognised("nested fsm switch shape")
            return d
        if k == "IfStmt" and per_fsm:
            cond = strip(st["inner"][0])
            if cond["kind"] == "BinaryOperator" and cond["opcode"] == "==" and strip(cond["inner"][0]).get("referencedDecl", {}).get("name") == "fsm" \
                    and strip(cond["inner"][1]).get("referencedDecl", {}).get("name") == "CAT_FSM_TYPE_ATCMD" and len(st["inner"]) == 3 and not res:
                th = st["inner"][1]
                el = st["inner"][2]
                return {"cmd": arm_calls(th["inner"] if th["kind"] == "CompoundStmt" else [th], "cmd", False),
                        "uns": arm_calls(el["inner"] if el["kind"] == "CompoundStmt" else [el], "uns", False)}
            raise Unrecognised("if in a switch arm")
        res.append(call_to_lean(st, fsm))
    return res


def switch_arms(sw, _unused, _x):
    """[(labels, stmts)] with fall-through labels grouped; label = enum name or 'default'"""
    body = sw["inner"][-1]
    arms = []
    cur_labels, cur = None, []

    def unwrap(st):
        labels = []
        while st["kind"] in ("CaseStmt", "DefaultStmt"):
            if st["kind"] == "CaseStmt":
                labels.append(strip(st["inner"][0]).get("referencedDecl", {}).get("name") or str(strip(st["inner"][0]).get("value")))
                st = st["inner"][-1]
            else:
                labels.append("default")
                st = st["inner"][-1]
        return labels, st
    for st in body["inner"]:
        if st["kind"] in ("CaseStmt", "DefaultStmt"):
            labels, first = unwrap(st)
            if cur_labels is not None and not any(x["kind"] in ("BreakStmt", "ReturnStmt") for x in cur):
                # fall through from the previous arm without break
                labels = cur_labels + labels
                cur = cur + [first]
                cur_labels = labels
                continue
            if cur_labels is not None:
                arms.append((cur_labels, cur))
            cur_labels, cur = labels, [first]
        else:
            cur.append(st)
    if cur_labels is not None:
        arms.append((cur_labels, cur))
    return arms


def t3(ast, ev):
    out, rep = [], {}
    for fn, per_fsm in (("process_write_loop", False), ("process_run_loop", False), ("process_read_loop", True), ("process_test_loop", True)):
        try:
            _, body = find_fn(ast, fn)
            sws = [s for s in body["inner"] if s["kind"] == "SwitchStmt"]
            if len(sws) != 1:
                raise Unrecognised("expected one switch")
            sw = sws[0]
            # the switch must be on the handler call
            arms = switch_arms(sw, None, None)
            table = {}
            default = None
            for labels, stmts in arms:
                calls = arm_calls(stmts, "cmd" if not per_fsm else None, per_fsm)
                for lb in labels:
                    if lb == "default":
                        default = calls
                    else:
                        if lb not in ev:
                            raise Unrecognised("case label " + str(lb))
                        table[ev[lb]] = calls
            if default is None:
                raise Unrecognised("no default arm")

            def fmt(c):
                if isinstance(c, dict):
                    return "(match f with | .cmd => [%s] | .uns => [%s])" % (", ".join(c["cmd"]), ", ".join(c["uns"]))
                return "[%s]" % ", ".join(c)
            lines = ["def %s (ret : Int)%s : List Call :=" % (fn, " (f : Fsm)" if per_fsm else "")]
            first = True
            for v in sorted(table):
                if table[v] == default:
                    continue
                lines.append("  %s ret = %d then %s" % ("if" if first else "else if", v, fmt(table[v])))
                first = False
            lines.append(("  else %s" if not first else "  %s") % fmt(default))
            txt = "\n".join(lines)
            if per_fsm and " f " not in txt and "match f" not in txt:
                txt = txt.replace("(f : Fsm)", "(_f : Fsm)")
            out.append(txt)
            rep[fn] = "translated"
        except Unrecognised as ex:
            out.append(None)
            rep[fn] = "fallback: %s" % ex
    return out, rep


# ------------------------------------------------------------------------------------ T5

def t5(ast):
    locked, unlocked = [], []
    rep = {}
    for n in ast["inner"]:
        if n.get("kind") != "FunctionDecl" or n.get("storageClass") == "static" or not n.get("name", "").startswith("cat_"):
            continue
        body = [c for c in n.get("inner", []) if c.get("kind") == "CompoundStmt"]
        if not body:
            continue
        sts = [s for s in body[0].get("inner", []) if not is_noise(s) and s["kind"] != "DeclStmt"]
        if is_bracket(sts):
            locked.append(n["name"])
        else:
            unlocked.append(n["name"])
            # an unlocked function must not mention the mutex at all
            if n["name"] != "cat_init" and "mutex" in json.dumps(body[0]):
                rep[n["name"]] = "uses the mutex outside the lock/body/unlock shape"
    return sorted(locked), sorted(unlocked), rep


def mentions(n, what):
    return what in json.dumps(n)


def is_bracket(sts):
    """if (mutex && lock() != 0) return MUTEX_LOCK;  <body statements>;  if (mutex && unlock() != 0) return MUTEX_UNLOCK;
    return <expr without self>  — the lock guard is the first statement, the unlock guard and a return that does not
    look at the object are the last two, and the body mentions neither lock nor unlock"""
    if len(sts) < 4:
        return False
    a, c, d = sts[0], sts[-2], sts[-1]
    if a["kind"] != "IfStmt" or c["kind"] != "IfStmt" or d["kind"] != "ReturnStmt":
        return False

    def guard(ifs, member, status):
        j = json.dumps(ifs["inner"][0])
        r = ifs["inner"][1]
        r = r["inner"][0] if r["kind"] == "CompoundStmt" else r
        return ('"name": "%s"' % member) in j and '"name": "mutex"' in j and r["kind"] == "ReturnStmt" and status in json.dumps(r) and len(ifs["inner"]) == 2
    if not guard(a, "lock", "CAT_STATUS_ERROR_MUTEX_LOCK") or not guard(c, "unlock", "CAT_STATUS_ERROR_MUTEX_UNLOCK"):
        return False
    for b in sts[1:-2]:
        j = json.dumps(b)
        if '"name": "mutex"' in j or b["kind"] == "ReturnStmt" or '"kind": "ReturnStmt"' in j:
            return False
    # the final return must not look at the object
    if '"name": "self"' in json.dumps(d):
        return False
    return True


# ------------------------------------------------------------------------------------ assembly

HEADER = '''/- GENERATED by tools/translate.py from /repo/src/cat.c and /repo/src/cat.h — do not edit.
   Regenerated on every check; the model is defined through these definitions. -/
import CatVerif.Model.Types
namespace Cat.Gen
'''



# ------------------------------------------------------------------------------------ T6
# which functions take input (`read_cmd_char`, as their first statement, returning OK when nothing
# was read) and which offer output (`io->write`); mapped through the T4 arms to the states in
# which the machines read and write.  `Proofs/Dispatch.lean` proves the model's `Reading`
# predicate and its writing states equal to these lists.

def _walk(n):
    yield n
    for c in n.get("inner", []) or []:
        if isinstance(c, dict):
            yield from _walk(c)


def _calls_fn(n, name):
    for x in _walk(n):
        if x.get("kind") == "CallExpr" and x.get("inner"):
            cal = strip(x["inner"][0])
            if cal.get("referencedDecl", {}).get("name") == name:
                return True
    return False


def _calls_member(n, member):
    """a call through self->io-><member>"""
    for x in _walk(n):
        if x.get("kind") == "CallExpr" and x.get("inner"):
            cal = strip(x["inner"][0])
            if cal.get("kind") == "MemberExpr" and cal.get("name") == member and cal.get("inner"):
                base = strip(cal["inner"][0])
                if base.get("kind") == "MemberExpr" and base.get("name") == "io":
                    return True
    return False


def _guarded_read_first(body):
    """first statement is  if (read_cmd_char(self) == 0) return CAT_STATUS_OK;  and no other call of it follows"""
    sts = [x for x in body.get("inner", []) if not is_noise(x) and x.get("kind") != "DeclStmt"]
    if not sts or sts[0].get("kind") != "IfStmt":
        return False
    cond, then = sts[0]["inner"][0], sts[0]["inner"][1]
    c = strip(cond)
    if not (c.get("kind") == "BinaryOperator" and c.get("opcode") == "==" and _calls_fn(c["inner"][0], "read_cmd_char")):
        return False
    z = strip(c["inner"][1])
    if not (z.get("kind") == "IntegerLiteral" and z.get("value") == "0"):
        return False
    rets = [x for x in _walk(then) if x.get("kind") == "ReturnStmt"]
    if len(rets) != 1:
        return False
    r = strip(rets[0]["inner"][0])
    if r.get("referencedDecl", {}).get("name") != "CAT_STATUS_OK":
        return False
    if len(sts[0]["inner"]) > 2:
        return False
    return not any(_calls_fn(x, "read_cmd_char") for x in sts[1:])


def t6(ast, arms_c, arms_u):
    """arms_*: state (Lean name) -> C function dispatched to (or None for inline arms)"""
    readers, writers = [], []
    for n in ast["inner"]:
        if n.get("kind") != "FunctionDecl" or n.get("name") == "read_cmd_char":
            continue
        body = [c for c in n.get("inner", []) if c.get("kind") == "CompoundStmt"]
        if not body:
            continue
        if _calls_fn(body[0], "read_cmd_char"):
            if not _guarded_read_first(body[0]):
                raise Unrecognised("T6: %s does not start with `if (read_cmd_char(self) == 0) return CAT_STATUS_OK;`" % n["name"])
            readers.append(n["name"])
        if _calls_member(body[0], "write"):
            writers.append(n["name"])
        if n.get("name") != "read_cmd_char" and _calls_member(body[0], "read"):
            raise Unrecognised("T6: %s calls io->read directly" % n["name"])
    for fn in readers + writers:
        if fn not in list(arms_c.values()) + list(arms_u.values()):
            raise Unrecognised("T6: %s takes input or offers output but is not a dispatch target" % fn)
    rs = [st for st, fn in arms_c.items() if fn in readers]
    if any(fn in readers for fn in arms_u.values()):
        raise Unrecognised("T6: the unsolicited machine reads input")
    ws = [st for st, fn in arms_c.items() if fn in writers]
    wu = [st for st, fn in arms_u.items() if fn in writers]
    return ("/-- T6: the states whose function begins with `if (read_cmd_char(self) == 0) return CAT_STATUS_OK;`\n"
            "(no other function calls `read_cmd_char`, none calls `io->read` directly) -/\n"
            "def readingStates : List CState := [%s]\n\n"
            "/-- T6: the states whose function calls `io->write` -/\n"
            "def writingStates : List CState := [%s]\n"
            "def uwritingStates : List UState := [%s]"
            % (", ".join("." + x for x in rs), ", ".join("." + x for x in ws), ", ".join("." + x for x in wu)))


# ------------------------------------------------------------------------------------ T4
# the two state dispatchers (`cat_service`, `unsolicited_events_service`) as Lean `match`es over the
# model's functions: Gen/Dispatch.lean.  `Proofs/Dispatch.lean` proves them equal to the
# hand-written `commandService` / `unsolicitedEventsService`.

GEN_DISPATCH = os.path.join(lib.LEAN, "CatVerif/Gen/Dispatch.lean")
EXPECTED_DISPATCH = os.path.join(lib.LEAN, "CatVerif/Gen/Dispatch.expected.lean")

CSTATE = {"CAT_STATE_ERROR": "error", "CAT_STATE_IDLE": "idle", "CAT_STATE_PARSE_PREFIX": "parsePrefix",
          "CAT_STATE_PARSE_COMMAND_CHAR": "parseCommandChar", "CAT_STATE_UPDATE_COMMAND_STATE": "updateCommandState",
          "CAT_STATE_WAIT_READ_ACKNOWLEDGE": "waitReadAck", "CAT_STATE_SEARCH_COMMAND": "searchCommand",
          "CAT_STATE_COMMAND_FOUND": "commandFound", "CAT_STATE_COMMAND_NOT_FOUND": "commandNotFound",
          "CAT_STATE_PARSE_COMMAND_ARGS": "parseCommandArgs", "CAT_STATE_PARSE_WRITE_ARGS": "parseWriteArgs",
          "CAT_STATE_FORMAT_READ_ARGS": "formatReadArgs", "CAT_STATE_WAIT_TEST_ACKNOWLEDGE": "waitTestAck",
          "CAT_STATE_FORMAT_TEST_ARGS": "formatTestArgs", "CAT_STATE_WRITE_LOOP": "writeLoop", "CAT_STATE_READ_LOOP": "readLoop",
          "CAT_STATE_TEST_LOOP": "testLoop", "CAT_STATE_RUN_LOOP": "runLoop", "CAT_STATE_HOLD": "hold",
          "CAT_STATE_FLUSH_IO_WRITE_WAIT": "flushWait", "CAT_STATE_FLUSH_IO_WRITE": "flushWrite",
          "CAT_STATE_AFTER_FLUSH_RESET": "afterFlushReset", "CAT_STATE_AFTER_FLUSH_OK": "afterFlushOk",
          "CAT_STATE_AFTER_FLUSH_FORMAT_READ_ARGS": "afterFlushFormatRead",
          "CAT_STATE_AFTER_FLUSH_FORMAT_TEST_ARGS": "afterFlushFormatTest", "CAT_STATE_PRINT_CMD": "printCmd"}
USTATE = {"CAT_UNSOLICITED_STATE_IDLE": "idle", "CAT_UNSOLICITED_STATE_FORMAT_READ_ARGS": "formatReadArgs",
          "CAT_UNSOLICITED_STATE_FORMAT_TEST_ARGS": "formatTestArgs", "CAT_UNSOLICITED_STATE_READ_LOOP": "readLoop",
          "CAT_UNSOLICITED_STATE_TEST_LOOP": "testLoop", "CAT_UNSOLICITED_STATE_FLUSH_IO_WRITE_WAIT": "flushWait",
          "CAT_UNSOLICITED_STATE_FLUSH_IO_WRITE": "flushWrite", "CAT_UNSOLICITED_STATE_AFTER_FLUSH_RESET": "afterFlushReset",
          "CAT_UNSOLICITED_STATE_AFTER_FLUSH_OK": "afterFlushOk",
          "CAT_UNSOLICITED_STATE_AFTER_FLUSH_FORMAT_READ_ARGS": "afterFlushFormatRead",
          "CAT_UNSOLICITED_STATE_AFTER_FLUSH_FORMAT_TEST_ARGS": "afterFlushFormatTest"}
FSMARG = {"CAT_FSM_TYPE_ATCMD": ".cmd", "CAT_FSM_TYPE_UNSOLICITED": ".uns"}
# C function -> Lean term returning St x Int (status-returning functions) ...
STATUS_FN = {"error_state": "errorState D s i", "process_idle_state": "processIdleState s i", "parse_prefix": "parsePrefix D s i",
             "parse_command": "parseCommand D s i", "update_command": "updateCommand D s",
             "wait_read_acknowledge": "waitReadAcknowledge s i", "search_command": "searchCommand D s",
             "command_found": "commandFound D s", "command_not_found": "commandNotFound D s",
             "parse_command_args": "parseCommandArgs D s i", "parse_write_args": "parseWriteArgs D s i",
             "format_read_args": "formatReadArgs D s {f} i", "wait_test_acknowledge": "waitTestAcknowledge D s i",
             "format_test_args": "formatTestArgs D s {f}", "process_write_loop": "processWriteLoop D s i",
             "process_read_loop": "processReadLoop D s {f} i", "process_test_loop": "processTestLoop D s {f} i",
             "process_run_loop": "processRunLoop D s i", "process_hold_state": "processHoldState D s",
             "process_io_write_wait": "processIoWriteWait s", "process_io_write": "processIoWrite D s i",
             "unsolicited_process_io_write_wait": "unsolicitedProcessIoWriteWait s",
             "unsolicited_process_io_write": "unsolicitedProcessIoWrite D s i"}
# ... and void functions (the model's ghost events are part of the template)
VOID_FN = {"reset_state": "(resetState s).emit .ackDone", "ack_ok": "ackOk D s",
           "start_processing_format_read_args": "startFormatRead D s {f}",
           "start_processing_format_test_args": "startFormatTest D s {f}", "print_cmd_list": "printCmdList D s",
           "check_unsolicited_buffers": "checkUnsolicitedBuffers D s", "unsolicited_reset_state": "unsolicitedResetState s",
           "end_processing_with_ok": "endOk D s {f}"}


def _find_switch(body):
    for st in body.get("inner", []):
        if st.get("kind") == "SwitchStmt":
            return st
    raise Unrecognised("no switch statement")


def _call_of(expr):
    e = strip(expr)
    if e.get("kind") != "CallExpr":
        raise Unrecognised("not a call")
    callee = strip(e["inner"][0])
    name = callee.get("referencedDecl", {}).get("name")
    fsm = None
    for a in e["inner"][2:]:
        a = strip(a)
        nm = a.get("referencedDecl", {}).get("name")
        if nm in FSMARG:
            fsm = FSMARG[nm]
        else:
            raise Unrecognised("unexpected argument in dispatch call to %s" % name)
    return name, fsm


def _arm_term(stmts, default_status):
    """one switch arm -> Lean term of type St x Int"""
    sts = [x for x in stmts if x.get("kind") != "BreakStmt" and not is_noise(x)]
    if not sts:
        return "(s, %s)" % default_status if default_status else None
    first = strip(sts[0])
    if first.get("kind") == "BinaryOperator" and first.get("opcode") == "=" and len(sts) == 1:
        # s = f(self[, fsm]);
        name, fsm = _call_of(first["inner"][1])
        if name not in STATUS_FN:
            raise Unrecognised("dispatch to unknown function %s" % name)
        return STATUS_FN[name].replace("{f}", fsm or "?")
    if first.get("kind") == "CallExpr":
        name, fsm = _call_of(first)
        if name not in VOID_FN:
            raise Unrecognised("dispatch to unknown void function %s" % name)
        term = VOID_FN[name].replace("{f}", fsm or "?")
        if len(sts) == 1:
            if not default_status:
                raise Unrecognised("void call without status")
            return "(%s, %s)" % (term, default_status)
        second = strip(sts[1])
        if len(sts) == 2 and second.get("kind") == "BinaryOperator" and second.get("opcode") == "=":
            v = strip(second["inner"][1]).get("referencedDecl", {}).get("name")
            if v and v.startswith("CAT_STATUS_"):
                return "(%s, Gen.%s)" % (term, v)
        raise Unrecognised("unexpected statements after void call")
    raise Unrecognised("unrecognised dispatch arm")


def _arm_fn(stmts):
    """the C function a dispatch arm calls first (None for an empty arm)"""
    sts = [x for x in stmts if x.get("kind") != "BreakStmt" and not is_noise(x)]
    if not sts:
        return None
    first = strip(sts[0])
    if first.get("kind") == "BinaryOperator" and first.get("opcode") == "=":
        return _call_of(first["inner"][1])[0]
    if first.get("kind") == "CallExpr":
        return _call_of(first)[0]
    return None


def t4(ast):
    out = []
    allarms = []
    for fn, states, lean_name, field, styp, default_status in (
            ("cat_service", CSTATE, "commandDispatch", "state", "CState", None),
            ("unsolicited_events_service", USTATE, "unsolicitedDispatch", "ustate", "UState", "Gen.CAT_STATUS_OK")):
        _, body = find_fn(ast, fn)
        sw = _find_switch(body)
        arms = switch_arms(sw, None, None)
        seen = {}
        fnof = {}
        for labels, stmts in arms:
            for lb in labels:
                if lb == "default":
                    continue
                if lb not in states:
                    raise Unrecognised("unknown state %s in %s" % (lb, fn))
                term = _arm_term(stmts, default_status)
                if "?" in term:
                    raise Unrecognised("missing fsm argument in %s" % fn)
                seen[states[lb]] = term
                fnof[states[lb]] = _arm_fn(stmts)
        missing = [v for v in states.values() if v not in seen]
        if missing:
            raise Unrecognised("states without an arm in %s: %s" % (fn, missing))
        lines = ["def %s (D : Desc) (s : St) (i : SvcIn) : St × Int :=" % lean_name, "  match s.%s with" % field]
        for v in states.values():
            lines.append("  | .%s => %s" % (v, seen[v]))
        out.append("\n".join(lines))
        allarms.append(fnof)
    out.append(t6(ast, allarms[0], allarms[1]))
    hdr = ("/-\n  GENERATED by tools/translate.py from the two state switches of src/cat.c (T4) and the call sites of\n  `read_cmd_char` / `io->write` (T6). Do not edit.\n"
           "  `Proofs/Dispatch.lean` proves these equal to the hand-written dispatchers of the model.\n-/\n"
           "import CatVerif.Model.Fsm\nnamespace Cat.Gen\nopen Cat\n\n")
    return hdr + "\n\n".join(out) + "\n\nend Cat.Gen\n"


def regenerate_dispatch(ast=None):
    key = "T4"
    try:
        txt = t4(ast or load_ast())
        status = "translated"
    except Exception as ex:
        if not os.path.exists(EXPECTED_DISPATCH):
            return {"T4": "failed: " + repr(ex)[:200]}
        txt = open(EXPECTED_DISPATCH).read()
        status = "fallback to expected text: " + repr(ex)[:200]
        if "T6:" in repr(ex):
            # the switches themselves were recognised; only the reader/writer sets were not
            key = "T6"
    with lib.Lock("gen"):
        old = open(GEN_DISPATCH).read() if os.path.exists(GEN_DISPATCH) else ""
        if old != txt:
            with open(GEN_DISPATCH, "w") as f:
                f.write(txt)
    if key == "T6":
        return {"T4": "translated", "T6": status}
    return {"T4": status, "T6": status}


# ------------------------------------------------------------------------------------ T7
# the field-assignment helpers (`reset_state`, `prepare_search_command`, `start_flush_io_buffer*`,
# `enable_hold_state`, `prepare_parse_command`, ...) as Lean record updates: Gen/Setters/<Module>.lean.
# `Proofs/Setters/<Module>.lean` proves the model's functions equal to them (ghost events aside).


# C member path -> (model field, kind)
FIELD = {"state": ("state", "cstate"), "cr_flag": ("crFlag", "bool"), "hold_state_flag": ("holdFlag", "bool"),
         "hold_exit_status": ("holdExitStatus", "int"), "cmd": ("cmd", "ptr"), "cmd_type": ("cmdType", "ctype"),
         "index": ("index", "nat"), "length": ("length", "nat"), "partial_cntr": ("partialCntr", "nat"),
         "position": ("position", "nat"), "write_buf": ("writeSrc", "src"), "write_state": ("writeState", "wstate"),
         "write_state_after": ("writeStateAfter", "after"), "implicit_write_flag": ("implicitWriteFlag", "bool"),
         "unsolicited_fsm.state": ("ustate", "ustate"), "unsolicited_fsm.cmd": ("ucmd", "ptr"),
         "unsolicited_fsm.cmd_type": ("ucmdType", "ctype"), "unsolicited_fsm.position": ("uposition", "nat"),
         "unsolicited_fsm.write_buf": ("uwriteSrc", "src"), "unsolicited_fsm.write_state": ("uwriteState", "wstate"),
         "unsolicited_fsm.write_state_after": ("uwriteStateAfter", "after"), "unsolicited_fsm.index": ("uindex", "nat")}
CTYPE = {"CAT_CMD_TYPE_NONE": ".none", "CAT_CMD_TYPE_RUN": ".run", "CAT_CMD_TYPE_READ": ".read", "CAT_CMD_TYPE_WRITE": ".write",
         "CAT_CMD_TYPE_TEST": ".test", "CAT_CMD_TYPE__TOTAL_NUM": ".total"}
WSTATE = {"CAT_WRITE_STATE_BEFORE": "0", "CAT_WRITE_STATE_MAIN_BUFFER": "1", "CAT_WRITE_STATE_AFTER": "2"}
SETTERS = [("reset_state", []), ("unsolicited_reset_state", []), ("prepare_search_command", []), ("enable_hold_state", []),
           ("start_flush_io_buffer", ["state_after"]), ("start_flush_io_buffer_raw", ["state_after"]),
           ("unsolicited_start_flush_io_buffer", ["state_after"]), ("prepare_parse_command", [])]


def _member_path(n):
    """self->a.b -> 'a.b' (None if not rooted at the parameter `self`)"""
    n = strip(n)
    parts = []
    while n.get("kind") == "MemberExpr":
        parts.append(n["name"])
        n = strip(n["inner"][0])
    if n.get("kind") == "DeclRefExpr" and n.get("referencedDecl", {}).get("name") == "self":
        return ".".join(reversed(parts))
    return None


def _is_self_call(n, name):
    n = strip(n)
    if n.get("kind") != "CallExpr":
        return False
    cal = strip(n["inner"][0])
    if cal.get("referencedDecl", {}).get("name") != name or len(n["inner"]) != 2:
        return False
    a = strip(n["inner"][1])
    return a.get("kind") == "DeclRefExpr" and a.get("referencedDecl", {}).get("name") == "self"


def _rhs(n, kind, params, consts):
    e = strip(n)
    k = e.get("kind")
    ref = e.get("referencedDecl", {}).get("name") if k == "DeclRefExpr" else None
    if kind == "bool":
        if k == "IntegerLiteral" and e.get("value") in ("0", "1"):
            return "true" if e["value"] == "1" else "false"
        if k == "CXXBoolLiteralExpr":
            return "true" if e.get("value") else "false"
    if kind in ("nat", "int") and k == "IntegerLiteral":
        return e["value"]
    if kind == "ptr":
        # NULL: ((void*)0)
        x = e
        while x.get("kind") in ("CStyleCastExpr", "ParenExpr", "ImplicitCastExpr") and x.get("inner"):
            x = x["inner"][0]
        if x.get("kind") == "IntegerLiteral" and x.get("value") == "0":
            return "none"
    if kind == "cstate" and ref in CSTATE:
        return "." + CSTATE[ref]
    if kind == "ustate" and ref in USTATE:
        return "." + USTATE[ref]
    if kind == "ctype" and ref in CTYPE:
        return CTYPE[ref]
    if kind == "wstate" and k == "IntegerLiteral":
        return e["value"]      # CAT_WRITE_STATE_* are macros: 0 before, 1 main buffer, 2 after
    if kind == "after" and ref in params:
        return "a"
    if kind == "src" and _is_self_call(e, "get_new_line_chars"):
        return ".nl (nlOff s)"
    if kind == "src" and (_is_self_call(e, "get_atcmd_buf") or _is_self_call(e, "get_unsolicited_buf")):
        return ".main"
    raise Unrecognised("T7: unrecognised right-hand side for a %s field" % kind)


def _setter_stmts(sts, params, consts, ind):
    out = []
    for st in sts:
        if is_noise(st):
            continue
        k = st.get("kind")
        e = strip(st)
        if k == "DeclStmt":
            # a local constant: uint8_t val = <constant expression>;
            for d in st.get("inner", []):
                if d.get("kind") != "VarDecl" or not d.get("inner"):
                    raise Unrecognised("T7: unrecognised declaration")
                v = const_value(strip(d["inner"][-1]), consts)
                if v is None:
                    raise Unrecognised("T7: local %s is not a constant" % d.get("name"))
                consts[d["name"]] = v
            continue
        if e.get("kind") == "BinaryOperator" and e.get("opcode") == "=":
            path = _member_path(e["inner"][0])
            if path not in FIELD:
                raise Unrecognised("T7: assignment to unknown field %s" % path)
            f, kind = FIELD[path]
            out.append("%slet s : St := { s with %s := %s }" % (ind, f, _rhs(e["inner"][1], kind, params, consts)))
            continue
        if e.get("kind") == "CallExpr" and strip(e["inner"][0]).get("referencedDecl", {}).get("name") == "memset":
            dst, val, num = e["inner"][1], e["inner"][2], e["inner"][3]
            x = strip(dst)
            while x.get("kind") in ("CStyleCastExpr", "ImplicitCastExpr", "ParenExpr") and x.get("inner"):
                x = x["inner"][0]
            if not (_is_self_call(x, "get_atcmd_buf") and _is_self_call(num, "get_atcmd_buf_size")):
                raise Unrecognised("T7: memset of something other than the whole command buffer")
            v = const_value(strip(val), consts)
            if v is None:
                raise Unrecognised("T7: memset value is not a constant")
            out.append("%slet s : St := writeB D s .cmd 0 (List.replicate D.cmdCap %d)" % (ind, v % 256))
            continue
        if k == "IfStmt":
            c = strip(st["inner"][0])
            if not (c.get("kind") == "BinaryOperator" and c.get("opcode") == "=="):
                raise Unrecognised("T7: unrecognised condition")
            path = _member_path(c["inner"][0])
            if path not in FIELD or FIELD[path][1] != "bool":
                raise Unrecognised("T7: condition on a non-flag")
            rhs = _rhs(c["inner"][1], "bool", params, consts)
            th = st["inner"][1].get("inner", []) if st["inner"][1].get("kind") == "CompoundStmt" else [st["inner"][1]]
            el = []
            if len(st["inner"]) > 2:
                el = st["inner"][2].get("inner", []) if st["inner"][2].get("kind") == "CompoundStmt" else [st["inner"][2]]
            a = _setter_stmts(th, params, consts, ind + "    ")
            b = _setter_stmts(el, params, consts, ind + "    ")
            out.append("%slet s : St := if s.%s == %s then (\n%s\n%s    s) else (\n%s\n%s    s)"
                       % (ind, FIELD[path][0], rhs, "\n".join(a) if a else ind + "    let s : St := s", ind,
                          "\n".join(b) if b else ind + "    let s : St := s", ind))
            continue
        raise Unrecognised("T7: unrecognised statement (%s)" % k)
    return out


def t7(ast, names=None):
    _, ev = enums(ast)
    defs = []
    for name, params in SETTERS:
        if names is not None and name not in names:
            continue
        _, body = find_fn(ast, name)
        consts = dict(ev)
        lines = _setter_stmts(body.get("inner", []), params, consts, "  ")
        sig = "def %s (D : Desc) (s : St)%s : St :=" % (name, " (a : After)" if params else "")
        defs.append("/-- `%s` of src/cat.c -/\n%s\n%s\n  s" % (name, sig, "\n".join(lines)))
    return defs


# ------------------------------------------------------------------------------------ T8
# the line-framing state functions: guarded read, `switch (self->current_char)`, arms made of field
# assignments, `self->length++`, calls of void helpers and early `break`s under a condition:
# Gen/Readers/<Module>.lean.  `Proofs/Readers/<Module>.lean` proves the model's functions equal to them.

READERS = ["error_state", "process_idle_state", "parse_prefix", "parse_command", "wait_read_acknowledge", "wait_test_acknowledge"]
READER_SIG = {"process_idle_state": "(D : Desc) (s : St) (i : SvcIn)"}
VOID_CALL = {"ack_error": "ackError D s", "ack_ok": "ackOk D s", "prepare_parse_command": "prepareParseCommand D s",
             "prepare_search_command": "prepareSearchCommand s", "start_processing_format_test_args": "startFormatTest D s {f}"}


def _cond(c):
    c = strip(c)
    if c.get("kind") == "BinaryOperator" and c.get("opcode") in ("==", "!="):
        lhs, rhs = strip(c["inner"][0]), strip(c["inner"][1])
        if not (rhs.get("kind") == "IntegerLiteral" and rhs.get("value") == "0"):
            raise Unrecognised("T8: comparison with something other than 0")
        path = _member_path(lhs)
        if path in FIELD and FIELD[path][1] == "nat":
            return "s.%s %s 0" % (FIELD[path][0], c["opcode"])
        if lhs.get("kind") == "CallExpr" and strip(lhs["inner"][0]).get("referencedDecl", {}).get("name") == "is_valid_cmd_name_char" \
                and _member_path(lhs["inner"][1]) == "current_char" and c["opcode"] == "!=":
            return "isNameChar s.currentChar"
    raise Unrecognised("T8: unrecognised condition")


def _ends_with_break(sts):
    return bool(sts) and sts[-1].get("kind") == "BreakStmt"


def _arm_expr(sts, ind):
    """statements of one arm (up to its break) -> Lean expression of type St over the variable s"""
    sts = [x for x in sts if not is_noise(x)]
    if not sts or sts[0].get("kind") == "BreakStmt":
        return "s"
    st, rest = sts[0], sts[1:]
    e = strip(st)
    k = st.get("kind")
    if k == "IfStmt":
        if len(st["inner"]) != 2:
            raise Unrecognised("T8: if with else")
        th = st["inner"][1].get("inner", []) if st["inner"][1].get("kind") == "CompoundStmt" else [st["inner"][1]]
        if not _ends_with_break(th):
            raise Unrecognised("T8: conditional block without break")
        return "(if %s then %s\n%selse %s)" % (_cond(st["inner"][0]), _arm_expr(th, ind + "  "), ind, _arm_expr(rest, ind + "  "))
    if e.get("kind") == "BinaryOperator" and e.get("opcode") == "=":
        path = _member_path(e["inner"][0])
        if path not in FIELD:
            raise Unrecognised("T8: assignment to unknown field %s" % path)
        f, kind = FIELD[path]
        return "(let s : St := { s with %s := %s }\n%s%s)" % (f, _rhs(e["inner"][1], kind, [], {}), ind, _arm_expr(rest, ind))
    if e.get("kind") == "UnaryOperator" and e.get("opcode") == "++":
        path = _member_path(e["inner"][0])
        if path not in FIELD or FIELD[path][1] != "nat":
            raise Unrecognised("T8: ++ of a non-counter")
        f = FIELD[path][0]
        return "(let s : St := { s with %s := s.%s + 1 }\n%s%s)" % (f, f, ind, _arm_expr(rest, ind))
    if e.get("kind") == "CallExpr":
        name, fsm = _call_of(e)
        if name not in VOID_CALL:
            raise Unrecognised("T8: call of %s" % name)
        term = VOID_CALL[name].replace("{f}", fsm or "?")
        if "?" in term:
            raise Unrecognised("T8: missing fsm argument")
        return "(let s : St := %s\n%s%s)" % (term, ind, _arm_expr(rest, ind))
    raise Unrecognised("T8: unrecognised statement (%s)" % k)


def t8(ast, names=None):
    defs = []
    for name in (names or READERS):
        _, body = find_fn(ast, name)
        if not _guarded_read_first(body):
            raise Unrecognised("T8: %s does not start with the guarded read" % name)
        sts = [x for x in body.get("inner", []) if not is_noise(x)]
        if len(sts) != 3 or sts[1].get("kind") != "SwitchStmt" or sts[2].get("kind") != "ReturnStmt":
            raise Unrecognised("T8: %s is not read / switch / return" % name)
        if _member_path(sts[1]["inner"][0]) != "current_char":
            raise Unrecognised("T8: %s does not switch on current_char" % name)
        if strip(sts[2]["inner"][0]).get("referencedDecl", {}).get("name") != "CAT_STATUS_BUSY":
            raise Unrecognised("T8: %s does not return BUSY" % name)
        arms = switch_arms(sts[1], None, None)
        chain, default = [], None
        for labels, stmts in arms:
            if "default" in labels:
                if len(labels) != 1:
                    raise Unrecognised("T8: default shares an arm")
                default = _arm_expr(stmts, "      ")
            else:
                cond = " || ".join("s.currentChar == %d" % int(l) for l in labels)
                chain.append((cond, _arm_expr(stmts, "      ")))
        if default is None:
            default = "s"
        body_txt = ""
        for cond, ex in chain:
            body_txt += "    if %s then %s\n    else " % (cond, ex)
        body_txt += default
        defs.append("/-- `%s` of src/cat.c -/\ndef %s (D : Desc) (s : St) (i : SvcIn) : St × Int :=\n"
                    "  let (s, got) := readCmdChar s i\n  if !got then (s, Gen.CAT_STATUS_OK)\n  else\n  let s : St :=\n%s\n  (s, Gen.CAT_STATUS_BUSY)"
                    % (name, name, body_txt))
    return defs


# ------------------------------------------------------------------------------------ T9
# small step functions without a read: conditions on fields of the object and of the selected
# command, assignments, helper calls, early returns, a `switch (self->cmd_type)`: Gen/Steps/<Module>.lean.
# `Proofs/Steps/<Module>.lean` proves the model's functions equal to them (ghost checks aside).

STEPS = ["process_io_write_wait", "unsolicited_process_io_write_wait", "process_hold_state", "command_not_found", "command_found"]
CMDFLAG = {"only_test": "onlyTest", "implicit_write": "implicitWrite"}
CMDPTR = {"run": "hasRun", "read": "hasRead", "write": "hasWrite", "test": "hasTest"}
STEP_CALL = dict(VOID_CALL)
STEP_CALL["start_processing_format_read_args"] = "startFormatRead D s {f}"
STEP_CALL["unsolicited_reset_state"] = "unsolicitedResetState s"


def _cmd_member(n):
    """self->cmd->X -> 'X'"""
    n = strip(n)
    if n.get("kind") == "MemberExpr" and _member_path(n["inner"][0]) == "cmd":
        return n["name"]
    return None


def _step_cond(c):
    c = strip(c)
    if c.get("kind") == "BinaryOperator" and c.get("opcode") in ("==", "!=", "<", ">", "<=", ">="):
        op = c["opcode"]
        lhs, rhs = c["inner"][0], c["inner"][1]
        cm = _cmd_member(lhs)
        if cm in CMDFLAG and op in ("==", "!="):
            v = _rhs(rhs, "bool", [], {})
            pos = (op == "!=") == (v == "false")
            return ("(D.cmdD s.cmd).%s" if pos else "!(D.cmdD s.cmd).%s") % CMDFLAG[cm]
        if cm in CMDPTR and op in ("==", "!="):
            if _rhs(rhs, "ptr", [], {}) != "none":
                raise Unrecognised("T9: handler compared with something other than NULL")
            return ("!(D.cmdD s.cmd).%s" if op == "==" else "(D.cmdD s.cmd).%s") % CMDPTR[cm]
        path = _member_path(lhs)
        if path in FIELD:
            f, kind = FIELD[path]
            if kind in ("nat", "int", "bool", "cstate", "ustate", "wstate") and (op in ("==", "!=") or kind in ("nat", "int")):
                return "s.%s %s %s" % (f, op.replace(">=", "≥").replace("<=", "≤"), _rhs(rhs, kind, [], {}))
    raise Unrecognised("T9: unrecognised condition")


def _block(n):
    return n.get("inner", []) if n.get("kind") == "CompoundStmt" else [n]


def _terminal(sts):
    sts = [x for x in sts if not is_noise(x)]
    return bool(sts) and sts[-1].get("kind") in ("ReturnStmt", "BreakStmt")


VOID_FN_MODE = [False]
RETMAP = [None]          # for functions returning a value: C constant name / literal -> Lean term


def _check_ret(st):
    if st.get("kind") == "ReturnStmt" and VOID_FN_MODE[0]:
        if st.get("inner"):
            raise Unrecognised("T12: value returned from a void function")
        return
    if st.get("kind") == "ReturnStmt":
        r = strip(st["inner"][0]).get("referencedDecl", {}).get("name") if st.get("inner") else None
        if r != "CAT_STATUS_BUSY":
            raise Unrecognised("T9: return of something other than CAT_STATUS_BUSY")


def _step_seq(sts, ind):
    """statement list -> Lean expression of type St over the variable s (every return is BUSY)"""
    sts = [x for x in sts if not is_noise(x)]
    if not sts:
        return "s"
    st, rest = sts[0], sts[1:]
    k = st.get("kind")
    e = strip(st)
    if k in ("ReturnStmt", "BreakStmt"):
        _check_ret(st)
        return "s"
    if k == "IfStmt":
        th = _block(st["inner"][1])
        el = _block(st["inner"][2]) if len(st["inner"]) > 2 else []
        c = _step_cond(st["inner"][0])
        if _terminal(th):
            return "(if %s then %s\n%selse %s)" % (c, _step_seq(th, ind + "  "), ind, _step_seq(el + rest, ind + "  "))
        if el and _terminal(el):
            return "(if %s then %s\n%selse %s)" % (c, _step_seq(th + rest, ind + "  "), ind, _step_seq(el, ind + "  "))
        return "(let s : St := (if %s then %s\n%selse %s)\n%s%s)" % (c, _step_seq(th, ind + "  "), ind, _step_seq(el, ind + "  "), ind,
                                                                  _step_seq(rest, ind))
    if k == "SwitchStmt":
        if _member_path(st["inner"][0]) != "cmd_type":
            raise Unrecognised("T9: switch on something other than cmd_type")
        if any(x.get("kind") != "ReturnStmt" for x in rest if not is_noise(x)):
            raise Unrecognised("T9: statements after the switch")
        arms = switch_arms(st, None, None)
        chain, default = [], "s"
        for labels, stmts in arms:
            if "default" in labels:
                if len(labels) != 1:
                    raise Unrecognised("T9: default shares an arm")
                default = _step_seq(stmts, ind + "  ")
            else:
                for l in labels:
                    if l not in CTYPE:
                        raise Unrecognised("T9: unknown request type %s" % l)
                chain.append((" || ".join("s.cmdType == %s" % CTYPE[l] for l in labels), _step_seq(stmts, ind + "  ")))
        txt = ""
        for cond, ex in chain:
            txt += "if %s then %s\n%selse " % (cond, ex, ind)
        return "(" + txt + default + ")"
    if e.get("kind") == "BinaryOperator" and e.get("opcode") == "=":
        lhs = strip(e["inner"][0])
        if lhs.get("kind") == "ArraySubscriptExpr":
            if not _is_self_call(lhs["inner"][0], "get_atcmd_buf"):
                raise Unrecognised("T9: store through something other than the command buffer")
            i, v = strip(lhs["inner"][1]), strip(e["inner"][1])
            if i.get("kind") != "IntegerLiteral" or v.get("kind") != "IntegerLiteral":
                raise Unrecognised("T9: non-constant buffer store")
            return "(let s : St := setB D s .cmd %s %s\n%s%s)" % (i["value"], v["value"], ind, _step_seq(rest, ind))
        path = _member_path(lhs)
        if path not in FIELD:
            raise Unrecognised("T9: assignment to unknown field %s" % path)
        f, kind = FIELD[path]
        return "(let s : St := { s with %s := %s }\n%s%s)" % (f, _rhs(e["inner"][1], kind, [], {}), ind, _step_seq(rest, ind))
    if e.get("kind") == "CallExpr":
        name, fsm = _call_of(e)
        if name not in STEP_CALL:
            raise Unrecognised("T9: call of %s" % name)
        term = STEP_CALL[name].replace("{f}", fsm or "?")
        if "?" in term:
            raise Unrecognised("T9: missing fsm argument")
        return "(let s : St := %s\n%s%s)" % (term, ind, _step_seq(rest, ind))
    raise Unrecognised("T9: unrecognised statement (%s)" % k)


# ------------------------------------------------------------------------------------ T10
# the two output steps `process_io_write` / `unsolicited_process_io_write`: fetch
# write_buf[position]; at the terminator advance the unit's phase (switch on write_state); else
# offer the byte to io->write and advance only if it was accepted.  The model's ghost parts — the
# bounds check of the fetch, the event of the io->write call, the event of the unit's end — are
# part of the template and marked.

WRITERS = [("process_io_write", ".cmd", "", "position", "writeState", "writeSrc", "state", "writeStateAfter", "toC"),
           ("unsolicited_process_io_write", ".uns", "unsolicited_fsm.", "uposition", "uwriteState", "uwriteSrc", "ustate",
            "uwriteStateAfter", "toU")]


def _writer(ast, name, fsm, pre, fpos, fws, fsrc, fstate, fafter, conv):
    _, body = find_fn(ast, name)
    sts = [x for x in body.get("inner", []) if not is_noise(x)]
    if len(sts) != 5 or [x.get("kind") for x in sts] != ["DeclStmt", "IfStmt", "IfStmt", "UnaryOperator", "ReturnStmt"]:
        raise Unrecognised("T10: %s is not fetch / terminator / offer / advance / return" % name)
    d = sts[0]["inner"][0]
    ini = strip(d["inner"][-1]) if d.get("inner") else {}
    if not (d.get("name") == "ch" and ini.get("kind") == "ArraySubscriptExpr" and _member_path(ini["inner"][0]) == pre + "write_buf"
            and _member_path(ini["inner"][1]) == pre + "position"):
        raise Unrecognised("T10: %s does not fetch write_buf[position]" % name)
    c = strip(sts[1]["inner"][0])
    z = strip(c["inner"][1]) if c.get("inner") and len(c["inner"]) == 2 else {}
    if not (c.get("kind") == "BinaryOperator" and c.get("opcode") == "==" and strip(c["inner"][0]).get("referencedDecl", {}).get("name") == "ch"
            and z.get("kind") in ("CharacterLiteral", "IntegerLiteral") and int(z.get("value")) == 0) or len(sts[1]["inner"]) != 2:
        raise Unrecognised("T10: %s does not test ch == 0" % name)
    th = [x for x in _block(sts[1]["inner"][1]) if not is_noise(x)]
    if len(th) != 2 or th[0].get("kind") != "SwitchStmt" or th[1].get("kind") != "ReturnStmt" or _member_path(th[0]["inner"][0]) != pre + "write_state":
        raise Unrecognised("T10: %s: terminator branch is not switch (write_state) / return" % name)
    _check_ret(th[1])
    chain = []
    for labels, stmts in switch_arms(th[0], None, None):
        if "default" in labels:
            if [x for x in stmts if not is_noise(x) and x.get("kind") != "BreakStmt"]:
                raise Unrecognised("T10: non-empty default arm")
            continue
        lines = []
        for st in [x for x in stmts if not is_noise(x)]:
            if st.get("kind") == "BreakStmt":
                break
            e = strip(st)
            if not (e.get("kind") == "BinaryOperator" and e.get("opcode") == "="):
                raise Unrecognised("T10: unrecognised statement in a write_state arm")
            path = _member_path(e["inner"][0])
            if path == pre + "state" and _member_path(e["inner"][1]) == pre + "write_state_after":
                lines.append("let s : St := ({ s with %s := s.%s.%s } : St).emit (.flushEnd %s)  -- ghost event: the unit ends"
                             % (fstate, fafter, conv, fsm))
                continue
            if path not in FIELD:
                raise Unrecognised("T10: assignment to unknown field %s" % path)
            f, kind = FIELD[path]
            lines.append("let s : St := { s with %s := %s }" % (f, _rhs(e["inner"][1], kind, [], {})))
        cond = " || ".join("s.%s == %d" % (fws, int(l)) for l in labels)
        chain.append((cond, lines))
    c2 = strip(sts[2]["inner"][0])
    ok = False
    if c2.get("kind") == "BinaryOperator" and c2.get("opcode") == "!=":
        call, one = strip(c2["inner"][0]), strip(c2["inner"][1])
        if call.get("kind") == "CallExpr" and _calls_member(call, "write") and one.get("kind") == "IntegerLiteral" and one.get("value") == "1":
            a = strip(call["inner"][1]) if len(call["inner"]) == 2 else {}
            ok = a.get("referencedDecl", {}).get("name") == "ch"
    th2 = [x for x in _block(sts[2]["inner"][1]) if not is_noise(x)]
    if not ok or len(th2) != 1 or th2[0].get("kind") != "ReturnStmt" or len(sts[2]["inner"]) != 2:
        raise Unrecognised("T10: %s does not return when io->write(ch) != 1" % name)
    _check_ret(th2[0])
    if not (sts[3].get("opcode") == "++" and _member_path(sts[3]["inner"][0]) == pre + "position"):
        raise Unrecognised("T10: %s does not advance position" % name)
    _check_ret(sts[4])
    txt = ["/-- `%s` of src/cat.c -/" % name,
           "def %s (D : Desc) (s : St) (i : SvcIn) : St × Int :=" % name,
           "  let ch := (writeByte D s %s).1" % fsm,
           "  let s : St := s.chk (writeByte D s %s).2  -- ghost check: the fetch lies inside its object" % fsm,
           "  if ch == 0 then",
           "    let s : St :="]
    first = True
    for cond, lines in chain:
        txt.append("      %sif %s then (" % ("" if first else "else ", cond))
        for l in lines:
            txt.append("        " + l)
        txt.append("        s)")
        first = False
    txt.append("      else s")
    txt += ["    (s, Gen.CAT_STATUS_BUSY)",
            "  else",
            "    let s : St := s.emit (.wr %s ch i.wr (unitPart s.%s s.%s))  -- ghost event: the io->write call" % (fsm, fws, fsrc),
            "    if !i.wr then (s, Gen.CAT_STATUS_BUSY)",
            "    else ({ s with %s := s.%s + 1 }, Gen.CAT_STATUS_BUSY)" % (fpos, fpos)]
    return "\n".join(txt)


# ------------------------------------------------------------------------------------ T11
# `update_command` and `search_command`: locals, calls of the lane accessors, conditions over
# fields, locals and the entry under the cursor, else-if chains, a pre-increment inside a
# condition, a conditional expression on the right of an assignment, early returns.  Statements
# are translated in continuation-passing style so that an early return simply drops the rest.

T11_FUNCS = ["update_command", "search_command"]


class _Env:
    def __init__(self):
        self.n = 0
        self.pre = []          # let-bindings hoisted out of an expression (calls with side conditions, ++)

    def fresh(self):
        self.n += 1
        return "t%d" % self.n


def _x(n, env):
    """expression -> (lean term, kind) with kind in nat / bool"""
    e = strip(n)
    k = e.get("kind")
    if k == "IntegerLiteral" or k == "CharacterLiteral":
        return str(int(e["value"])), "nat"
    if k == "DeclRefExpr":
        nm = e["referencedDecl"]["name"]
        if nm in ("cmd_name_len", "cmd_state"):
            return nm, "nat"
        raise Unrecognised("T11: reference to %s" % nm)
    if k == "MemberExpr":
        path = _member_path(e)
        cm = _cmd_member(e)
        if cm in CMDFLAG:
            return "(D.cmdD s.cmd).%s" % CMDFLAG[cm], "bool"
        if cm == "var_num":
            return "(D.cmdD s.cmd).varNum", "nat"
        if path == "commands_num":
            return "D.commandsNum", "nat"
        if path in FIELD and FIELD[path][1] in ("nat", "bool"):
            return "s." + FIELD[path][0], FIELD[path][1]
        if path == "current_char":
            return "s.currentChar", "nat"
        b = strip(e["inner"][0])
        if b.get("kind") == "DeclRefExpr" and b["referencedDecl"]["name"] == "cmd" and e["name"] == "implicit_write":
            return "cmd.implicitWrite", "bool"
        if b.get("kind") == "DeclRefExpr" and b["referencedDecl"]["name"] == "cmd" and e["name"] == "var_num":
            return "cmd.varNum", "nat"
        raise Unrecognised("T11: member %s" % (path or e.get("name")))
    if k == "ArraySubscriptExpr":
        base = strip(e["inner"][0])
        b = strip(base["inner"][0]) if base.get("kind") == "MemberExpr" else {}
        if base.get("name") == "name" and b.get("kind") == "DeclRefExpr" and b["referencedDecl"]["name"] == "cmd":
            i, _ = _x(e["inner"][1], env)
            return "cmd.name.getD (%s) 0" % i, "nat"
        raise Unrecognised("T11: subscript")
    if k == "CallExpr":
        fn = strip(e["inner"][0]).get("referencedDecl", {}).get("name")
        if fn == "to_upper":
            a, _ = _x(e["inner"][1], env)
            return "toUpper (%s)" % a, "nat"
        if fn == "strlen":
            a = strip(e["inner"][1])
            b = strip(a["inner"][0]) if a.get("kind") == "MemberExpr" else {}
            if a.get("name") == "name" and b.get("kind") == "DeclRefExpr" and b["referencedDecl"]["name"] == "cmd":
                return "cmd.name.length", "nat"
        if fn == "get_atcmd_buf_size" and _is_self_call(e, "get_atcmd_buf_size"):
            return "D.cmdCap", "nat"
        if fn == "get_unsolicited_buf_size" and _is_self_call(e, "get_unsolicited_buf_size"):
            return "D.unsCap", "nat"
        if fn == "strlen" and _is_self_call(e["inner"][1], "get_atcmd_buf"):
            return "strlenOf (region D s .cmd 0)", "nat"
        if fn == "is_variables_access_possible" and strip(e["inner"][2]).get("referencedDecl", {}).get("name") == "cmd":
            acc = strip(e["inner"][3]).get("referencedDecl", {}).get("name")
            m = {"CAT_VAR_ACCESS_WRITE_ONLY": ".wo", "CAT_VAR_ACCESS_READ_ONLY": ".ro"}
            if acc in m:
                return "varsAccessible cmd %s" % m[acc], "bool"
        if fn == "is_variables_access_possible" and _member_path(e["inner"][2]) == "cmd":
            acc = strip(e["inner"][3]).get("referencedDecl", {}).get("name")
            m = {"CAT_VAR_ACCESS_WRITE_ONLY": ".wo", "CAT_VAR_ACCESS_READ_ONLY": ".ro"}
            if acc in m:
                return "varsAccessible (D.cmdD s.cmd) %s" % m[acc], "bool"
        if fn == "is_command_disable" and len(e["inner"]) == 3 and strip(e["inner"][1]).get("referencedDecl", {}).get("name") == "self" \
                and _member_path(e["inner"][2]) == "index":
            return "disabledByIndex D.groups s.index", "bool"
        if fn == "cmd_list_next_cmd" and _is_self_call(e, "cmd_list_next_cmd"):
            t = env.fresh()
            env.pre.append("let (s, %s) := cmdListNextCmd D s" % t)
            return t, "bool"
        if fn == "get_cmd_state" and _member_path(e["inner"][2]) == "index":
            t = env.fresh()
            env.pre.append("let (s, %s) := getCmdState D s s.index" % t)
            return t, "nat"
        raise Unrecognised("T11: call of %s" % fn)
    if k == "UnaryOperator" and e.get("opcode") == "++" and not e.get("isPostfix") and _member_path(e["inner"][0]) in FIELD \
            and FIELD[_member_path(e["inner"][0])][1] == "nat":
        fld = FIELD[_member_path(e["inner"][0])][0]
        env.pre.append("let s : St := { s with %s := s.%s + 1 }" % (fld, fld))
        return "s." + fld, "nat"
    if k == "BinaryOperator":
        op = e["opcode"]
        if op in ("+", "-"):
            a, _ = _x(e["inner"][0], env)
            b, _ = _x(e["inner"][1], env)
            return "%s %s %s" % (a, op, b), "nat"
        lm = strip(e["inner"][0])
        lb = strip(lm["inner"][0]) if lm.get("kind") == "MemberExpr" and lm.get("inner") else {}
        if op in ("==", "!=") and lm.get("kind") == "MemberExpr" and lb.get("kind") == "DeclRefExpr" and \
                lb.get("referencedDecl", {}).get("name") == "cmd" and (lm.get("name") in CMDPTR or lm.get("name") in ("var", "description")):
            if _rhs(e["inner"][1], "ptr", [], {}) != "none":
                raise Unrecognised("T12: pointer compared with something other than NULL")
            if lm["name"] == "var":
                return ("cmd.vars.isNone" if op == "==" else "cmd.vars.isSome"), "bool"
            if lm["name"] == "description":
                return ("cmd.desc.isNone" if op == "==" else "cmd.desc.isSome"), "bool"
            return ("!cmd.%s" if op == "==" else "cmd.%s") % CMDPTR[lm["name"]], "bool"
        if op in ("==", "!=") and lm.get("kind") == "CallExpr":
            fn = strip(lm["inner"][0]).get("referencedDecl", {}).get("name")
            z = strip(e["inner"][1])
            if z.get("kind") == "IntegerLiteral" and z.get("value") == "0" and fn == "print_current_cmd_full_name" and \
                    len(lm["inner"]) == 3 and strip(lm["inner"][1]).get("referencedDecl", {}).get("name") == "self" and \
                    strip(lm["inner"][2]).get("kind") == "StringLiteral":
                t = env.fresh()
                txt = "[%s]" % ", ".join(str(b) for b in json.loads(strip(lm["inner"][2])["value"]).encode())
                env.pre.append("let (s, %s) := printCurrentCmdFullName D s %s" % (t, txt))
                return (t if op == "==" else "!" + t), "bool"
            if z.get("kind") == "IntegerLiteral" and z.get("value") == "0" and fn in ("print_string_to_buf", "print_response_test"):
                t = env.fresh()
                if fn == "print_string_to_buf":
                    a = strip(lm["inner"][2])
                    ab = strip(a["inner"][0]) if a.get("kind") == "MemberExpr" else {}
                    fa = strip(lm["inner"][3]).get("referencedDecl", {}).get("name") if len(lm["inner"]) == 4 else None
                    farg = "f" if fa == "fsm" else FSMARG.get(fa)
                    if farg is None:
                        raise Unrecognised("T12: print_string_to_buf for an unrecognised machine")
                    if _is_self_call(a, "get_new_line_chars"):
                        txt = "(nlStr s)"
                    elif _cmd_member(a) == "name":
                        txt = "(D.cmdD s.cmd).name"
                    elif a.get("kind") == "DeclRefExpr" and a["referencedDecl"]["name"] == "suffix":
                        txt = "suffix"
                    elif a.get("name") == "description" and ab.get("kind") == "DeclRefExpr" and ab["referencedDecl"]["name"] == "cmd":
                        txt = "(cmd.desc.getD [])"
                    elif a.get("kind") == "StringLiteral":
                        txt = "[%s]" % ", ".join(str(b) for b in json.loads(a["value"]).encode())
                    elif a.get("name") == "name" and ab.get("kind") == "DeclRefExpr" and ab["referencedDecl"]["name"] == "cmd":
                        txt = "cmd.name"
                    else:
                        raise Unrecognised("T12: print_string_to_buf of an unrecognised text")
                    env.pre.append("let (s, %s) := printN D s %s %s" % (t, farg, txt))
                else:
                    env.pre.append("let (s, %s) := printResponseTest D s f" % t)
                # both return 0 on success; the model's functions return "succeeded"
                return (t if op == "==" else "!" + t), "bool"
        cmh = _cmd_member(e["inner"][0])
        if op in ("==", "!=") and cmh in CMDPTR:
            if _rhs(e["inner"][1], "ptr", [], {}) != "none":
                raise Unrecognised("T11: handler compared with something other than NULL")
            return ("!(D.cmdD s.cmd).%s" if op == "==" else "(D.cmdD s.cmd).%s") % CMDPTR[cmh], "bool"
        if op in ("==", "!=") and cmh == "var":
            if _rhs(e["inner"][1], "ptr", [], {}) != "none":
                raise Unrecognised("T11: var compared with something other than NULL")
            return ("(D.cmdD s.cmd).vars.isNone" if op == "==" else "(D.cmdD s.cmd).vars.isSome"), "bool"
        if op in ("==", "!=") and _member_path(e["inner"][0]) == "cmd":
            if _rhs(e["inner"][1], "ptr", [], {}) != "none":
                raise Unrecognised("T11: cmd compared with something other than NULL")
            return ("s.cmd.isNone" if op == "==" else "s.cmd.isSome"), "bool"
        if op in ("==", "!=", "<", ">", "<=", ">="):
            a, ka = _x(e["inner"][0], env)
            if ka == "bool":
                v = _rhs(e["inner"][1], "bool", [], {})
                pos = (op == "==") == (v == "true")
                return (a if pos else "!" + a), "bool"
            b, _ = _x(e["inner"][1], env)
            return "decide (%s %s %s)" % (a, {"==": "=", "!=": "≠", ">=": "≥", "<=": "≤"}.get(op, op), b), "bool"
        if op in ("&&", "||"):
            a, _ = _x(e["inner"][0], env)
            b, _ = _x(e["inner"][1], env)
            return "(%s %s %s)" % (a, op, b), "bool"
    raise Unrecognised("T11: unrecognised expression (%s)" % k)


def _has_return(sts):
    return any(x.get("kind") in ("ReturnStmt", "BreakStmt") for st in sts for x in _walk(st))


def _cps(sts, k, ind):
    """statements followed by the continuation k (a Lean term of type St over s)"""
    sts = [x for x in sts if not is_noise(x)]
    if not sts:
        return k
    st, rest = sts[0], sts[1:]
    kind = st.get("kind")
    e = strip(st)
    if kind == "ReturnStmt" and RETMAP[0] is not None:
        r = strip(st["inner"][0])
        key = r.get("referencedDecl", {}).get("name")
        if key is None:
            key = str(const_value(r, {}))
        if key not in RETMAP[0]:
            raise Unrecognised("T16: return of %s" % key)
        return "(s, %s)" % RETMAP[0][key]
    if kind == "ReturnStmt":
        _check_ret(st)
        return "s"
    if kind == "BreakStmt":
        return "s"          # only used inside a switch that is followed by nothing but `return CAT_STATUS_BUSY`
    if kind == "SwitchStmt" and strip(st["inner"][0]).get("referencedDecl", {}).get("name") == "fsm":
        arms = {}
        for labels, stmts in switch_arms(st, None, None):
            body = [x for x in stmts if not is_noise(x)]
            for l in labels:
                if l == "default":
                    if [x for x in body if x.get("kind") != "BreakStmt"]:
                        raise Unrecognised("T12: non-empty default arm of switch (fsm)")
                    continue
                if l not in FSMARG:
                    raise Unrecognised("T12: unknown fsm label %s" % l)
                if body and body[-1].get("kind") == "BreakStmt":
                    body = body[:-1]
                if any(x.get("kind") == "BreakStmt" for b in body for x in _walk(b)):
                    raise Unrecognised("T12: break inside an arm of switch (fsm)")
                arms[FSMARG[l]] = _cps(body + rest, k, ind + "  ")
        if set(arms) != {".cmd", ".uns"}:
            raise Unrecognised("T12: switch (fsm) without both arms")
        return "(match f with\n%s| .cmd => %s\n%s| .uns => %s)" % (ind, arms[".cmd"], ind, arms[".uns"])
    if kind == "SwitchStmt" and _member_path(st["inner"][0]) == "cmd_type":
        if [x for x in rest if not is_noise(x)] or k != "s":
            raise Unrecognised("T20: statements after switch (self->cmd_type)")
        arms, has_default = {}, False
        for labels, stmts in switch_arms(st, None, None):
            for l in labels:
                if l == "default":
                    has_default = True      # values outside the enumeration: the model's type has none
                    continue
                if l not in CTYPE:
                    raise Unrecognised("T20: unknown request type label %s" % l)
                if CTYPE[l] in arms:
                    raise Unrecognised("T20: duplicate label")
                arms[CTYPE[l]] = _cps(stmts, "s", ind + "    ")
        if set(arms) != set(CTYPE.values()):
            raise Unrecognised("T20: switch (self->cmd_type) does not name every request type")
        return "(match s.cmdType with\n" + "\n".join("%s| %s => %s" % (ind, c, arms[c]) for c in CTYPE.values()) + ")"
    if kind == "SwitchStmt":
        if _member_path(st["inner"][0]) != "current_char":
            raise Unrecognised("T11: switch on something other than current_char")
        if any(x.get("kind") != "ReturnStmt" for x in rest if not is_noise(x)):
            raise Unrecognised("T11: statements after the switch")
        chain, default = [], "s"
        for labels, stmts in switch_arms(st, None, None):
            if "default" in labels:
                if len(labels) != 1:
                    raise Unrecognised("T11: default shares an arm")
                default = _cps(stmts, "s", ind + "  ")
            else:
                chain.append((" || ".join("s.currentChar == %d" % int(l) for l in labels), _cps(stmts, "s", ind + "  ")))
        txt = ""
        for cond, ex in chain:
            txt += "if %s then %s\n%selse " % (cond, ex, ind)
        return "(" + txt + default + ")"
    if kind == "DeclStmt":
        out = []
        for d in st.get("inner", []):
            nm = d.get("name")
            init = [c for c in d.get("inner", []) if c.get("kind") not in (None,)]
            if not init:
                continue                      # declared, assigned later
            i = strip(init[-1])
            fn = strip(i["inner"][0]).get("referencedDecl", {}).get("name") if i.get("kind") == "CallExpr" else None
            if nm == "cmd" and fn == "get_command_by_index" and _member_path(i["inner"][2]) == "index":
                out.append("let cmd := (cmdByIndex D.groups s.index).getD default")
            elif nm == "cmd" and fn == "get_command_by_fsm":
                out.append("let s : St := s.chkUb (s.cmdOf f).isSome")   # the model's ghost check: the pointer is dereferenced below
                out.append("let cmd := D.cmdD (s.cmdOf f)")
            elif nm == "cmd_state" and fn == "get_cmd_state" and _member_path(i["inner"][2]) == "index":
                out.append("let (s, cmd_state) := getCmdState D s s.index")
            else:
                raise Unrecognised("T11: declaration of %s" % nm)
        tail = _cps(rest, k, ind)
        return "(" + (";\n" + ind).join(out + [tail]) + ")"
    if kind == "IfStmt":
        env = _Env()
        c, _ = _x(st["inner"][0], env)
        th = _block(st["inner"][1])
        el = _block(st["inner"][2]) if len(st["inner"]) > 2 else []
        if _has_return(th) or _has_return(el):
            body = "if %s then %s\n%selse %s" % (c, _cps(th + rest, k, ind + "  "), ind, _cps(el + rest, k, ind + "  "))
        else:
            body = "let s : St := (if %s then %s\n%s  else %s);\n%s%s" % (c, _cps(th, "s", ind + "  "), ind, _cps(el, "s", ind + "  "), ind,
                                                                     _cps(rest, k, ind))
        return "(" + (";\n" + ind).join(env.pre + [body]) + ")"
    if e.get("kind") == "BinaryOperator" and e.get("opcode") == "=":
        lhs, rhs = strip(e["inner"][0]), strip(e["inner"][1])
        if lhs.get("kind") == "DeclRefExpr" and lhs["referencedDecl"]["name"] == "cmd_name_len":
            env = _Env()
            v, _ = _x(rhs, env)
            return "(let cmd_name_len := %s;\n%s%s)" % (v, ind, _cps(rest, k, ind))
        if lhs.get("kind") == "ArraySubscriptExpr" and (_is_self_call(lhs["inner"][0], "get_atcmd_buf") or _is_self_call(lhs["inner"][0], "get_unsolicited_buf")):
            fsm_ = ".cmd" if _is_self_call(lhs["inner"][0], "get_atcmd_buf") else ".uns"
            i = strip(lhs["inner"][1])
            want = "position" if fsm_ == ".cmd" else "unsolicited_fsm.position"
            if i.get("kind") == "UnaryOperator" and i.get("opcode") == "++" and i.get("isPostfix") and _member_path(i["inner"][0]) == want:
                env = _Env()
                v, _ = _x(rhs, env)
                fld = FIELD[want][0]
                return "(let s : St := setB D s %s s.%s %s;\n%slet s : St := { s with %s := s.%s + 1 };\n%s%s)" % (
                    fsm_, fld, v, ind, fld, fld, ind, _cps(rest, k, ind))
        if lhs.get("kind") == "ArraySubscriptExpr" and _is_self_call(lhs["inner"][0], "get_atcmd_buf"):
            # get_atcmd_buf(self)[self->length++] = x   /   get_atcmd_buf(self)[self->length] = 0
            i = strip(lhs["inner"][1])
            env = _Env()
            v, _ = _x(rhs, env)
            if i.get("kind") == "UnaryOperator" and i.get("opcode") == "++" and i.get("isPostfix") and _member_path(i["inner"][0]) == "length":
                return "(let s : St := setB D s .cmd s.length %s;\n%slet s : St := { s with length := s.length + 1 };\n%s%s)" % (
                    v, ind, ind, _cps(rest, k, ind))
            if _member_path(i) == "length":
                return "(let s : St := setB D s .cmd s.length %s;\n%s%s)" % (v, ind, _cps(rest, k, ind))
            raise Unrecognised("T11: store into the command buffer at an unrecognised index")
        path = _member_path(lhs)
        if path in ("var", "unsolicited_fsm.var"):
            # self->var = &self->cmd->var[self->index]: a cached pointer the model does not keep (it indexes on use)
            return _cps(rest, k, ind)
        if path == "cmd" and rhs.get("kind") == "CallExpr" and \
                strip(rhs["inner"][0]).get("referencedDecl", {}).get("name") == "get_command_by_index" and _member_path(rhs["inner"][2]) == "index":
            return "(let s : St := { s with cmd := some s.index };\n%s%s)" % (ind, _cps(rest, k, ind))
        if path == "state" and rhs.get("kind") == "ConditionalOperator":
            env = _Env()
            c, _ = _x(rhs["inner"][0], env)
            a, b = _rhs(rhs["inner"][1], "cstate", [], {}), _rhs(rhs["inner"][2], "cstate", [], {})
            return "(let s : St := { s with state := if %s then %s else %s };\n%s%s)" % (c, a, b, ind, _cps(rest, k, ind))
        if path in FIELD and rhs.get("kind") == "ConditionalOperator":
            f, kd = FIELD[path]
            env = _Env()
            c, _ = _x(rhs["inner"][0], env)
            if env.pre:
                raise Unrecognised("T20: side effect in the condition of ?:")
            a, b = _rhs(rhs["inner"][1], kd, [], {}), _rhs(rhs["inner"][2], kd, [], {})
            return "(let s : St := { s with %s := if %s then %s else %s };\n%s%s)" % (f, c, a, b, ind, _cps(rest, k, ind))
        if path in FIELD:
            f, kd = FIELD[path]
            return "(let s : St := { s with %s := %s };\n%s%s)" % (f, _rhs(rhs, kd, [], {}), ind, _cps(rest, k, ind))
        raise Unrecognised("T11: assignment")
    if e.get("kind") == "UnaryOperator" and e.get("opcode") == "++":
        path = _member_path(e["inner"][0])
        if path in FIELD and FIELD[path][1] == "nat":
            f = FIELD[path][0]
            return "(let s : St := { s with %s := s.%s + 1 };\n%s%s)" % (f, f, ind, _cps(rest, k, ind))
    if e.get("kind") == "CallExpr":
        fn = strip(e["inner"][0]).get("referencedDecl", {}).get("name")
        if fn == "set_cmd_state" and _member_path(e["inner"][2]) == "index":
            v = strip(e["inner"][3])
            if v.get("kind") != "IntegerLiteral":
                raise Unrecognised("T11: set_cmd_state with a non-constant state")
            return "(let s : St := setCmdState D s s.index %s;\n%s%s)" % (v["value"], ind, _cps(rest, k, ind))
        args = [strip(a).get("referencedDecl", {}).get("name") for a in e["inner"][1:]]
        if fn in ("start_flush_io_buffer", "unsolicited_start_flush_io_buffer", "start_flush_io_buffer_raw") and len(args) == 2 and \
                args[0] == "self" and args[1] in AFTER_CONST:
            term = {"start_flush_io_buffer": "startFlush s .cmd %s", "unsolicited_start_flush_io_buffer": "startFlush s .uns %s",
                    "start_flush_io_buffer_raw": "startFlushRaw s %s"}[fn] % AFTER_CONST[args[1]]
            return "(let s : St := %s;\n%s%s)" % (term, ind, _cps(rest, k, ind))
        if fn in FSM_CALL and args == ["self", "fsm"]:
            return "(let s : St := %s;\n%s%s)" % (FSM_CALL[fn], ind, _cps(rest, k, ind))
        if fn in STEP_CALL and "{f}" not in STEP_CALL[fn]:
            return "(let s : St := %s;\n%s%s)" % (STEP_CALL[fn], ind, _cps(rest, k, ind))
        if fn in STEP_CALL:
            nm, fsm = _call_of(e)
            if fsm:
                return "(let s : St := %s;\n%s%s)" % (STEP_CALL[fn].replace("{f}", fsm), ind, _cps(rest, k, ind))
    raise Unrecognised("T11: unrecognised statement (%s)" % kind)


def t11_body_after_read(ast, name):
    _, body = find_fn(ast, name)
    if not _guarded_read_first(body):
        raise Unrecognised("T11: %s does not start with the guarded read" % name)
    sts = [x for x in body.get("inner", []) if not is_noise(x)]
    return ("/-- `%s` of src/cat.c, after its guarded read -/\ndef %s_body (D : Desc) (s : St) : St :=\n  %s"
            % (name, name, _cps(sts[1:], "s", "    ")))


def t11(ast):
    defs = [t11_body_after_read(ast, "parse_command_args")]
    for name in T11_FUNCS:
        _, body = find_fn(ast, name)
        sts = [x for x in body.get("inner", []) if not is_noise(x)]
        defs.append("/-- `%s` of src/cat.c -/\ndef %s (D : Desc) (s : St) : St × Int :=\n  (%s, Gen.CAT_STATUS_BUSY)"
                    % (name, name, _cps(sts, "s", "    ")))
    return defs


# ------------------------------------------------------------------------------------ T12
# void helpers parameterised by the machine (`cat_fsm_type fsm`): `switch (fsm)` becomes a match on the
# model's `Fsm`; `print_string_to_buf(...) != 0` / `print_response_test(...) == 0` bind the model's
# printers; `get_command_by_fsm` binds the selected command (with the model's ghost NULL check).

FSM_CALL = {"reset_position": "s.setPos f 0", "end_processing_with_error": "endError D s f", "end_processing_with_ok": "endOk D s f"}
T12_FUNCS = ["end_processing_with_ok", "end_processing_with_error", "reset_position", "start_processing_format_read_args",
             "start_processing_format_test_args"]


def t12(ast):
    defs = []
    VOID_FN_MODE[0] = True
    try:
        for name in T12_FUNCS:
            _, body = find_fn(ast, name)
            sts = [x for x in body.get("inner", []) if not is_noise(x)]
            defs.append("/-- `%s` of src/cat.c -/\ndef %s (D : Desc) (s : St) (f : Fsm) : St :=\n  %s" % (name, name, _cps(sts, "s", "    ")))
    finally:
        VOID_FN_MODE[0] = False
    return defs


# ------------------------------------------------------------------------------------ T13
# the ring of unsolicited events: `push_unsolicited_cmd`, `pop_unsolicited_cmd`, `check_unsolicited_buffers`.
# Pointers into the ring become indices, the out-parameters of pop a returned pair; the statement
# shapes are checked one by one.

RING = "unsolicited_fsm.unsolicited_cmd_buffer"


def _is_pred_call(n, name):
    """<name>(self) != false"""
    c = strip(n)
    if c.get("kind") == "BinaryOperator" and c.get("opcode") == "!=" and _is_self_call(c["inner"][0], name):
        try:
            return _rhs(c["inner"][1], "bool", [], {}) == "false"
        except Unrecognised:
            return False
    return False


def _ret_name(st):
    if st.get("kind") != "ReturnStmt" or not st.get("inner"):
        return None
    return strip(st["inner"][0]).get("referencedDecl", {}).get("name")


def _item_addr(st, cursor):
    """item = &self->...buffer[self->...<cursor>]"""
    e = strip(st)
    if not (e.get("kind") == "BinaryOperator" and e.get("opcode") == "=" and strip(e["inner"][0]).get("referencedDecl", {}).get("name") == "item"):
        return False
    r = strip(e["inner"][1])
    if not (r.get("kind") == "UnaryOperator" and r.get("opcode") == "&"):
        return False
    a = strip(r["inner"][0])
    return a.get("kind") == "ArraySubscriptExpr" and _member_path(a["inner"][0]) == RING and _member_path(a["inner"][1]) == RING + "_" + cursor


def _wrap_incr(st, cursor):
    """if (++self->...<cursor> >= CAT_UNSOLICITED_CMD_BUFFER_SIZE) self->...<cursor> = 0;"""
    if st.get("kind") != "IfStmt" or len(st["inner"]) != 2:
        return False
    c = strip(st["inner"][0])
    if not (c.get("kind") == "BinaryOperator" and c.get("opcode") == ">="):
        return False
    inc, lim = strip(c["inner"][0]), strip(c["inner"][1])
    if not (inc.get("kind") == "UnaryOperator" and inc.get("opcode") == "++" and not inc.get("isPostfix") and
            _member_path(inc["inner"][0]) == RING + "_" + cursor):
        return False
    if not (lim.get("kind") == "IntegerLiteral" and int(lim["value"]) == CAPMARK):
        return False
    th = [x for x in _block(st["inner"][1]) if not is_noise(x)]
    if len(th) != 1:
        return False
    a = strip(th[0])
    z = strip(a["inner"][1]) if a.get("kind") == "BinaryOperator" and a.get("opcode") == "=" else {}
    return a.get("kind") == "BinaryOperator" and _member_path(a["inner"][0]) == RING + "_" + cursor and z.get("kind") == "IntegerLiteral" and z.get("value") == "0"


def _count_step(st, op):
    e = strip(st)
    return e.get("kind") == "UnaryOperator" and e.get("opcode") == op and _member_path(e["inner"][0]) == RING + "_items_count"


def _deref_assign(st, lhs_kind, field):
    """*cmd = item->cmd  (lhs_kind 'out')   /   item->cmd = cmd  (lhs_kind 'item')"""
    e = strip(st)
    if not (e.get("kind") == "BinaryOperator" and e.get("opcode") == "="):
        return False
    l, r = strip(e["inner"][0]), strip(e["inner"][1])

    def is_item_field(x):
        b = strip(x["inner"][0]) if x.get("kind") == "MemberExpr" and x.get("inner") else {}
        return x.get("kind") == "MemberExpr" and x.get("name") == field and b.get("referencedDecl", {}).get("name") == "item"

    def is_param(x, deref):
        if deref:
            return x.get("kind") == "UnaryOperator" and x.get("opcode") == "*" and strip(x["inner"][0]).get("referencedDecl", {}).get("name") == field
        return x.get("referencedDecl", {}).get("name") == field
    if lhs_kind == "out":
        return is_param(l, True) and is_item_field(r)
    return is_item_field(l) and is_param(r, False)


def t13(ast):
    # pop
    _, body = find_fn(ast, "pop_unsolicited_cmd")
    sts = [x for x in body.get("inner", []) if not is_noise(x) and x.get("kind") != "DeclStmt"]
    ok = (len(sts) == 7 and sts[0].get("kind") == "IfStmt" and _is_pred_call(sts[0]["inner"][0], "is_unsolicited_buffer_empty")
          and [_ret_name(x) for x in _block(sts[0]["inner"][1]) if not is_noise(x)] == ["CAT_STATUS_ERROR_BUFFER_EMPTY"]
          and _item_addr(sts[1], "head") and _deref_assign(sts[2], "out", "cmd") and _deref_assign(sts[3], "out", "type")
          and _wrap_incr(sts[4], "head") and _count_step(sts[5], "--") and _ret_name(sts[6]) == "CAT_STATUS_OK")
    if not ok:
        raise Unrecognised("T13: pop_unsolicited_cmd has an unrecognised shape")
    pop = ("/-- `pop_unsolicited_cmd` of src/cat.c: the status, and the popped entry in place of the two out-parameters -/\n"
           "def pop_unsolicited_cmd (D : Desc) (s : St) : St × Int × (Nat × CmdType) :=\n"
           "  if Gen.is_unsolicited_buffer_empty s.rcount then (s, Gen.CAT_STATUS_ERROR_BUFFER_EMPTY, (0, .none))\n"
           "  else\n"
           "    let s : St := s.chk (s.rhead < D.cap);   -- ghost check: the slot lies inside the ring\n"
           "    let item := s.ring.getD s.rhead (0, .none);\n"
           "    let s : St := { s with rhead := s.rhead + 1 };\n"
           "    let s : St := (if s.rhead ≥ D.cap then { s with rhead := 0 } else s);\n"
           "    let s : St := { s with rcount := s.rcount - 1 };\n"
           "    (s, Gen.CAT_STATUS_OK, item)")
    # push
    _, body = find_fn(ast, "push_unsolicited_cmd")
    sts = [x for x in body.get("inner", []) if not is_noise(x) and x.get("kind") != "DeclStmt"]
    ok = (len(sts) == 7 and sts[0].get("kind") == "IfStmt" and _is_pred_call(sts[0]["inner"][0], "is_unsolicited_buffer_full")
          and [_ret_name(x) for x in _block(sts[0]["inner"][1]) if not is_noise(x)] == ["CAT_STATUS_ERROR_BUFFER_FULL"]
          and _item_addr(sts[1], "tail") and _deref_assign(sts[2], "item", "cmd") and _deref_assign(sts[3], "item", "type")
          and _wrap_incr(sts[4], "tail") and _count_step(sts[5], "++") and _ret_name(sts[6]) == "CAT_STATUS_OK")
    if not ok:
        raise Unrecognised("T13: push_unsolicited_cmd has an unrecognised shape")
    push = ("/-- `push_unsolicited_cmd` of src/cat.c -/\n"
            "def push_unsolicited_cmd (D : Desc) (s : St) (c : Nat) (t : CmdType) : St × Int :=\n"
            "  if Gen.is_unsolicited_buffer_full s.rcount D.cap then (s, Gen.CAT_STATUS_ERROR_BUFFER_FULL)\n"
            "  else\n"
            "    let s : St := s.chk (s.rtail < D.cap);   -- ghost check: the slot lies inside the ring\n"
            "    let s : St := { s with ring := s.ring.set s.rtail (c, t) };\n"
            "    let s : St := { s with rtail := s.rtail + 1 };\n"
            "    let s : St := (if s.rtail ≥ D.cap then { s with rtail := 0 } else s);\n"
            "    let s : St := { s with rcount := s.rcount + 1 };\n"
            "    (s, Gen.CAT_STATUS_OK)")
    # check_unsolicited_buffers
    _, body = find_fn(ast, "check_unsolicited_buffers")
    sts = [x for x in body.get("inner", []) if not is_noise(x) and x.get("kind") != "DeclStmt"]
    ok = len(sts) == 3 and sts[0].get("kind") == "IfStmt" and sts[2].get("kind") == "SwitchStmt"
    if ok:
        c = strip(sts[0]["inner"][0])
        call = strip(c["inner"][0]) if c.get("kind") == "BinaryOperator" and c.get("opcode") == "!=" else {}
        ok = (call.get("kind") == "CallExpr" and strip(call["inner"][0]).get("referencedDecl", {}).get("name") == "pop_unsolicited_cmd"
              and strip(c["inner"][1]).get("referencedDecl", {}).get("name") == "CAT_STATUS_OK" and len(call["inner"]) == 4)
        if ok:
            a1, a2 = strip(call["inner"][2]), strip(call["inner"][3])
            ok = (a1.get("kind") == "UnaryOperator" and a1.get("opcode") == "&" and _member_path(a1["inner"][0]) == "unsolicited_fsm.cmd"
                  and a2.get("kind") == "UnaryOperator" and a2.get("opcode") == "&" and strip(a2["inner"][0]).get("referencedDecl", {}).get("name") == "type")
        th = [x for x in _block(sts[0]["inner"][1]) if not is_noise(x)]
        ok = ok and len(th) == 1 and th[0].get("kind") == "ReturnStmt" and not th[0].get("inner")
        e = strip(sts[1])
        ok = ok and e.get("kind") == "BinaryOperator" and e.get("opcode") == "=" and _member_path(e["inner"][0]) == "unsolicited_fsm.cmd_type" \
            and strip(e["inner"][1]).get("referencedDecl", {}).get("name") == "type"
        ok = ok and strip(sts[2]["inner"][0]).get("referencedDecl", {}).get("name") == "type"
    if not ok:
        raise Unrecognised("T13: check_unsolicited_buffers has an unrecognised shape")
    arms = {}
    for labels, stmts in switch_arms(sts[2], None, None):
        body2 = [x for x in stmts if not is_noise(x) and x.get("kind") != "BreakStmt"]
        for l in labels:
            if l == "default":
                if body2:
                    raise Unrecognised("T13: non-empty default arm")
                continue
            if l not in CTYPE or len(body2) != 1:
                raise Unrecognised("T13: unrecognised arm of switch (type)")
            nm, fsm = _call_of(strip(body2[0]))
            if fsm != ".uns" or nm not in ("start_processing_format_read_args", "start_processing_format_test_args"):
                raise Unrecognised("T13: unrecognised call in switch (type)")
            arms[CTYPE[l]] = ("startFormatRead D s .uns" if nm.endswith("read_args") else "startFormatTest D s .uns")
    chk = ("/-- `check_unsolicited_buffers` of src/cat.c -/\n"
           "def check_unsolicited_buffers (D : Desc) (s : St) : St :=\n"
           "  let r := pop_unsolicited_cmd D s;\n"
           "  if r.2.1 != Gen.CAT_STATUS_OK then r.1\n"
           "  else\n"
           "    let s : St := { r.1 with ucmd := some r.2.2.1 };   -- the first out-parameter is &self->unsolicited_fsm.cmd\n"
           "    let s : St := { s with ucmdType := r.2.2.2 };\n"
           "    let s : St := s.emit (.pop r.2.2.1 r.2.2.2);   -- ghost event\n"
           + "".join("    if r.2.2.2 == %s then %s else\n" % (k, v) for k, v in arms.items()) + "    s")
    return [pop, push, chk]


# ------------------------------------------------------------------------------------ T14
# three more small functions, recognised statement by statement: `read_cmd_char` (the only caller of
# io->read; case folding outside argument collection), `hold_exit`, `start_print_cmd_list`.

def t14_read(ast):
    out = []
    # read_cmd_char
    _, body = find_fn(ast, "read_cmd_char")
    sts = [x for x in body.get("inner", []) if not is_noise(x)]
    ok = len(sts) == 3 and sts[0].get("kind") == "IfStmt" and sts[1].get("kind") == "IfStmt" and sts[2].get("kind") == "ReturnStmt"
    if ok:
        c = strip(sts[0]["inner"][0])
        call = strip(c["inner"][0]) if c.get("kind") == "BinaryOperator" and c.get("opcode") == "==" else {}
        z = strip(c["inner"][1]) if c.get("inner") and len(c["inner"]) > 1 else {}
        a = strip(call["inner"][1]) if call.get("kind") == "CallExpr" and len(call.get("inner", [])) == 2 else {}
        ok = (call.get("kind") == "CallExpr" and _calls_member(call, "read") and a.get("kind") == "UnaryOperator" and a.get("opcode") == "&"
              and _member_path(a["inner"][0]) == "current_char" and z.get("kind") == "IntegerLiteral" and z.get("value") == "0"
              and len(sts[0]["inner"]) == 2)
        r0 = [x for x in _block(sts[0]["inner"][1]) if not is_noise(x)]
        ok = ok and len(r0) == 1 and r0[0].get("kind") == "ReturnStmt" and strip(r0[0]["inner"][0]).get("value") == "0"
        c2 = strip(sts[1]["inner"][0])
        ok = ok and c2.get("kind") == "BinaryOperator" and c2.get("opcode") == "!=" and _member_path(c2["inner"][0]) == "state" \
            and strip(c2["inner"][1]).get("referencedDecl", {}).get("name") == "CAT_STATE_PARSE_COMMAND_ARGS" and len(sts[1]["inner"]) == 2
        t = [x for x in _block(sts[1]["inner"][1]) if not is_noise(x)]
        if ok and len(t) == 1:
            e = strip(t[0])
            r = strip(e["inner"][1]) if e.get("kind") == "BinaryOperator" and e.get("opcode") == "=" else {}
            ok = (_member_path(e["inner"][0]) == "current_char" and r.get("kind") == "CallExpr"
                  and strip(r["inner"][0]).get("referencedDecl", {}).get("name") == "to_upper" and _member_path(r["inner"][1]) == "current_char")
        else:
            ok = False
        ok = ok and strip(sts[2]["inner"][0]).get("value") == "1"
    if not ok:
        raise Unrecognised("T14: read_cmd_char has an unrecognised shape")
    out.append("/-- `read_cmd_char` of src/cat.c; the Bool is \"returned 1\" -/\n"
               "def read_cmd_char (s : St) (i : SvcIn) : St × Bool :=\n"
               "  match i.rd with\n"
               "  | none => (s.emit (.rd none), false)            -- io->read returned 0 (ghost event)\n"
               "  | some b =>\n"
               "    let s : St := s.emit (.rd (some b));           -- ghost event\n"
               "    let s : St := { s with currentChar := b };     -- io->read stored the byte through its argument\n"
               "    let s : St := (if s.state != .parseCommandArgs then { s with currentChar := toUpper s.currentChar } else s);\n"
               "    (s, true)")
    return out


def t14_hold(ast):
    out = []
    # hold_exit
    _, body = find_fn(ast, "hold_exit")
    sts = [x for x in body.get("inner", []) if not is_noise(x) and x.get("kind") != "DeclStmt"]
    ok = len(sts) == 2 and sts[0].get("kind") == "IfStmt" and len(sts[0]["inner"]) == 3 and sts[1].get("kind") == "ReturnStmt" \
        and strip(sts[1]["inner"][0]).get("referencedDecl", {}).get("name") == "s"
    if ok:
        c = strip(sts[0]["inner"][0])
        ok = c.get("kind") == "BinaryOperator" and c.get("opcode") == "==" and _member_path(c["inner"][0]) == "hold_state_flag"
        try:
            ok = ok and _rhs(c["inner"][1], "bool", [], {}) == "false"
        except Unrecognised:
            ok = False

        def set_s(st, name):
            e = strip(st)
            return (e.get("kind") == "BinaryOperator" and e.get("opcode") == "=" and strip(e["inner"][0]).get("referencedDecl", {}).get("name") == "s"
                    and strip(e["inner"][1]).get("referencedDecl", {}).get("name") == name)
        th = [x for x in _block(sts[0]["inner"][1]) if not is_noise(x)]
        el = [x for x in _block(sts[0]["inner"][2]) if not is_noise(x)]
        ok = ok and len(th) == 1 and set_s(th[0], "CAT_STATUS_ERROR_NOT_HOLD") and len(el) == 2 and set_s(el[1], "CAT_STATUS_OK")
        if ok:
            e = strip(el[0])
            r = strip(e["inner"][1]) if e.get("kind") == "BinaryOperator" and e.get("opcode") == "=" else {}
            ok = _member_path(e["inner"][0]) == "hold_exit_status" and r.get("kind") == "ConditionalOperator"
            if ok:
                cc, a, b = strip(r["inner"][0]), strip(r["inner"][1]), strip(r["inner"][2])
                ok = (cc.get("kind") == "BinaryOperator" and cc.get("opcode") == "==" and strip(cc["inner"][0]).get("referencedDecl", {}).get("name") == "status"
                      and strip(cc["inner"][1]).get("referencedDecl", {}).get("name") == "CAT_STATUS_OK" and const_value(a, {}) == 1 and const_value(b, {}) == -1)
    if not ok:
        raise Unrecognised("T14: hold_exit has an unrecognised shape")
    out.append("/-- `hold_exit` of src/cat.c -/\n"
               "def hold_exit (s : St) (status : Int) : St × Int :=\n"
               "  if s.holdFlag == false then (s, Gen.CAT_STATUS_ERROR_NOT_HOLD)\n"
               "  else ({ s with holdExitStatus := if status = Gen.CAT_STATUS_OK then 1 else -1 }, Gen.CAT_STATUS_OK)")
    return out


def t14_list(ast):
    out = []
    # start_print_cmd_list via the CPS translator (void function)
    VOID_FN_MODE[0] = True
    try:
        _, body = find_fn(ast, "start_print_cmd_list")
        sts = [x for x in body.get("inner", []) if not is_noise(x)]
        out.append("/-- `start_print_cmd_list` of src/cat.c -/\ndef start_print_cmd_list (D : Desc) (s : St) : St :=\n  %s" % _cps(sts, "s", "    "))
    finally:
        VOID_FN_MODE[0] = False
    return out


def t14(ast):
    return t14_read(ast) + t14_hold(ast) + t14_list(ast)


# ------------------------------------------------------------------------------------ T15
# the bit arithmetic of `get_cmd_state` / `set_cmd_state` (four 2-bit match states per byte) as natural
# number bit operations: the byte index, the value read, the value stored.  `uint8_t` locals hold
# values below 256; `~x` on an operand known to be below 256 is 255 - x in the low byte.

def _bits(n, env):
    e = strip(n)
    while e.get("kind") in ("CStyleCastExpr",) and e.get("inner"):
        e = strip(e["inner"][0])
    k = e.get("kind")
    if k == "IntegerLiteral":
        return str(int(e["value"]))
    if k == "DeclRefExpr":
        nm = e["referencedDecl"]["name"]
        if nm in env:
            return "(" + env[nm] + ")"
        raise Unrecognised("T15: reference to %s" % nm)
    if k == "BinaryOperator" and e.get("opcode") in (">>", "<<", "%", "&", "|"):
        a, b = _bits(e["inner"][0], env), _bits(e["inner"][1], env)
        op = {">>": ">>>", "<<": "<<<", "%": "%", "&": "&&&", "|": "|||"}[e["opcode"]]
        return "(%s %s %s)" % (a, op, b)
    if k == "UnaryOperator" and e.get("opcode") == "~":
        return "(255 - %s)" % _bits(e["inner"][0], env)
    raise Unrecognised("T15: unrecognised expression (%s)" % k)


def _buf_at(n, env):
    """get_atcmd_buf(self)[<index expr>] -> the index as a Lean term"""
    e = strip(n)
    if e.get("kind") == "ArraySubscriptExpr" and _is_self_call(e["inner"][0], "get_atcmd_buf"):
        return _bits(e["inner"][1], env)
    return None


def t15(ast):
    out = []
    # get_cmd_state: guard on is_command_disable, then  s = buf[i >> 2]; s >>= ...; s &= 3; return s
    _, body = find_fn(ast, "get_cmd_state")
    sts = [x for x in body.get("inner", []) if not is_noise(x) and x.get("kind") != "DeclStmt"]
    if not (len(sts) >= 3 and sts[0].get("kind") == "IfStmt" and sts[-1].get("kind") == "ReturnStmt"):
        raise Unrecognised("T15: get_cmd_state has an unrecognised shape")
    c = strip(sts[0]["inner"][0])
    call = strip(c["inner"][0]) if c.get("kind") == "BinaryOperator" and c.get("opcode") == "!=" else {}
    ok = call.get("kind") == "CallExpr" and strip(call["inner"][0]).get("referencedDecl", {}).get("name") == "is_command_disable" \
        and strip(call["inner"][2]).get("referencedDecl", {}).get("name") == "i"
    r0 = [x for x in _block(sts[0]["inner"][1]) if not is_noise(x)]
    ok = ok and len(r0) == 1 and r0[0].get("kind") == "ReturnStmt" and const_value(strip(r0[0]["inner"][0]), {}) == 0
    if not ok:
        raise Unrecognised("T15: get_cmd_state does not start with the disable guard returning NOT_MATCH")
    env = {"i": "i"}
    idx = None
    for st in sts[1:-1]:
        e = strip(st)
        if e.get("kind") == "BinaryOperator" and e.get("opcode") == "=" and strip(e["inner"][0]).get("referencedDecl", {}).get("name") == "s":
            idx = _buf_at(e["inner"][1], env)
            if idx is None:
                raise Unrecognised("T15: s is not loaded from the command buffer")
            env["s"] = "b"
        elif e.get("kind") == "CompoundAssignOperator" and strip(e["inner"][0]).get("referencedDecl", {}).get("name") == "s" and "s" in env:
            op = {">>=": ">>>", "&=": "&&&", "|=": "|||", "<<=": "<<<"}.get(e.get("opcode"))
            if not op:
                raise Unrecognised("T15: compound assignment %s" % e.get("opcode"))
            env["s"] = "(%s %s %s) %% 256" % (env["s"], op, _bits(e["inner"][1], env))
        else:
            raise Unrecognised("T15: unrecognised statement in get_cmd_state")
    if strip(sts[-1]["inner"][0]).get("referencedDecl", {}).get("name") != "s" or idx is None:
        raise Unrecognised("T15: get_cmd_state does not return s")
    out.append("/-- `get_cmd_state` of src/cat.c for an enabled entry: the byte index … -/\ndef get_cmd_state_index (i : Nat) : Nat := %s" % idx)
    out.append("/-- … and the value extracted from the byte `b` found there -/\ndef get_cmd_state_bits (b i : Nat) : Nat := %s" % env["s"])
    # set_cmd_state
    _, body = find_fn(ast, "set_cmd_state")
    sts = [x for x in body.get("inner", []) if not is_noise(x) and x.get("kind") != "DeclStmt"]
    env = {"i": "i", "state": "v"}
    ld = stn = None
    for st in sts:
        e = strip(st)
        if e.get("kind") == "BinaryOperator" and e.get("opcode") == "=":
            lhs = strip(e["inner"][0])
            nm = lhs.get("referencedDecl", {}).get("name")
            if nm in ("n", "k"):
                env[nm] = _bits(e["inner"][1], env) + (" % 256" if nm == "k" else "")
            elif nm == "s":
                ld = _buf_at(e["inner"][1], env)
                if ld is None:
                    raise Unrecognised("T15: s is not loaded from the command buffer")
                env["s"] = "b"
            elif _buf_at(lhs, env) is not None:
                if strip(e["inner"][1]).get("referencedDecl", {}).get("name") != "s":
                    raise Unrecognised("T15: something other than s is stored")
                stn = _buf_at(lhs, env)
            else:
                raise Unrecognised("T15: unrecognised assignment in set_cmd_state")
        elif e.get("kind") == "CompoundAssignOperator" and strip(e["inner"][0]).get("referencedDecl", {}).get("name") == "s" and "s" in env:
            op = {">>=": ">>>", "&=": "&&&", "|=": "|||", "<<=": "<<<"}.get(e.get("opcode"))
            if not op:
                raise Unrecognised("T15: compound assignment %s" % e.get("opcode"))
            env["s"] = "(%s %s %s) %% 256" % (env["s"], op, _bits(e["inner"][1], env))
        else:
            raise Unrecognised("T15: unrecognised statement in set_cmd_state")
    if ld is None or stn is None or ld != stn:
        raise Unrecognised("T15: set_cmd_state does not load and store the same byte")
    out.append("/-- `set_cmd_state` of src/cat.c: the byte index … -/\ndef set_cmd_state_index (i : Nat) : Nat := %s" % ld)
    out.append("/-- … and the byte stored there, from the byte `b` found there and the new state `v` -/\ndef set_cmd_state_bits (b i v : Nat) : Nat := %s" % env["s"])
    return out


# ------------------------------------------------------------------------------------ T16
# machine-parameterised helpers that return a value: `print_response_test` (0 / -1) and
# `next_format_var_by_fsm` (BUSY / OK); the model's versions return "succeeded" / "returned BUSY".

AFTER_CONST = {"CAT_STATE_AFTER_FLUSH_RESET": ".reset", "CAT_STATE_AFTER_FLUSH_OK": ".ok",
               "CAT_STATE_AFTER_FLUSH_FORMAT_READ_ARGS": ".fmtRead", "CAT_STATE_AFTER_FLUSH_FORMAT_TEST_ARGS": ".fmtTest",
               "CAT_STATE_PRINT_CMD": ".printCmd",
               "CAT_UNSOLICITED_STATE_AFTER_FLUSH_RESET": ".reset", "CAT_UNSOLICITED_STATE_AFTER_FLUSH_OK": ".ok",
               "CAT_UNSOLICITED_STATE_AFTER_FLUSH_FORMAT_READ_ARGS": ".fmtRead",
               "CAT_UNSOLICITED_STATE_AFTER_FLUSH_FORMAT_TEST_ARGS": ".fmtTest"}


def t16(ast):
    defs = []
    try:
        RETMAP[0] = {"0": "true", "-1": "false"}
        _, body = find_fn(ast, "print_response_test")
        sts = [x for x in body.get("inner", []) if not is_noise(x)]
        defs.append("/-- `print_response_test` of src/cat.c; the Bool is \"returned 0\" -/\n"
                    "def print_response_test (D : Desc) (s : St) (f : Fsm) : St × Bool :=\n  %s" % _cps(sts, "(s, true)", "    "))
    finally:
        RETMAP[0] = None
    try:
        RETMAP[0] = {"CAT_STATUS_BUSY": "true", "CAT_STATUS_OK": "false"}
        _, body = find_fn(ast, "next_format_var_by_fsm")
        sts = [x for x in body.get("inner", []) if not is_noise(x)]
        defs.append("/-- `next_format_var_by_fsm` of src/cat.c; the Bool is \"returned BUSY\" -/\n"
                    "def next_format_var_by_fsm (D : Desc) (s : St) (f : Fsm) : St × Bool :=\n  %s" % _cps(sts, "(s, false)", "    "))
    finally:
        RETMAP[0] = None
    return defs


# ------------------------------------------------------------------------------------ T17
# `format_read_args` and `format_test_args`: recognised statement by statement (the variable callback, the
# dispatch on the variable's type, the advance to the next variable, the hand-over to the handler or the
# flush); the Lean text is then fixed.

VARTYPE_FN = [("CAT_VAR_INT_DEC", "format_int_decimal"), ("CAT_VAR_UINT_DEC", "format_uint_decimal"),
              ("CAT_VAR_NUM_HEX", "format_num_hexadecimal"), ("CAT_VAR_BUF_HEX", "format_buffer_hexadecimal"),
              ("CAT_VAR_BUF_STRING", "format_buffer_string")]


def _is_call_self_fsm(n, name):
    e = strip(n)
    if e.get("kind") != "CallExpr" or strip(e["inner"][0]).get("referencedDecl", {}).get("name") != name:
        return False
    args = [strip(a).get("referencedDecl", {}).get("name") for a in e["inner"][1:]]
    return args == ["self", "fsm"]


def _ret_is(st, name):
    sts = [x for x in _block(st) if not is_noise(x)]
    return len(sts) >= 1 and sts[-1].get("kind") == "ReturnStmt" and sts[-1].get("inner") and \
        strip(sts[-1]["inner"][0]).get("referencedDecl", {}).get("name") == name


def _err_and_busy(st):
    """{ end_processing_with_error(self, fsm); return CAT_STATUS_BUSY; }"""
    sts = [x for x in _block(st) if not is_noise(x)]
    return len(sts) == 2 and _is_call_self_fsm(sts[0], "end_processing_with_error") and _ret_is(st, "CAT_STATUS_BUSY")


def _stat_next(sts2):
    """stat = next_format_var_by_fsm(self, fsm);  if (stat != CAT_STATUS_OK) return stat;   (two statements; the first may be
    a declaration with initialiser)"""
    a, b = sts2
    if a.get("kind") == "DeclStmt":
        d = a["inner"][0]
        ok = d.get("name") == "stat" and d.get("inner") and _is_call_self_fsm(d["inner"][-1], "next_format_var_by_fsm")
    else:
        e = strip(a)
        ok = e.get("kind") == "BinaryOperator" and e.get("opcode") == "=" and strip(e["inner"][0]).get("referencedDecl", {}).get("name") == "stat" \
            and _is_call_self_fsm(e["inner"][1], "next_format_var_by_fsm")
    if not ok or b.get("kind") != "IfStmt" or len(b["inner"]) != 2:
        return False
    c = strip(b["inner"][0])
    if not (c.get("kind") == "BinaryOperator" and c.get("opcode") == "!=" and strip(c["inner"][0]).get("referencedDecl", {}).get("name") == "stat"
            and strip(c["inner"][1]).get("referencedDecl", {}).get("name") == "CAT_STATUS_OK"):
        return False
    r = [x for x in _block(b["inner"][1]) if not is_noise(x)]
    return len(r) == 1 and r[0].get("kind") == "ReturnStmt" and strip(r[0]["inner"][0]).get("referencedDecl", {}).get("name") == "stat"


def t17(ast):
    out = []
    # ---- format_test_args
    _, body = find_fn(ast, "format_test_args")
    sts = [x for x in body.get("inner", []) if not is_noise(x)]
    ok = len(sts) == 6 and sts[0].get("kind") == "IfStmt" and sts[3].get("kind") == "IfStmt"
    if ok:
        c = strip(sts[0]["inner"][0])
        ok = c.get("kind") == "BinaryOperator" and c.get("opcode") == "<" and _is_call_self_fsm(c["inner"][0], "format_info_type") \
            and strip(c["inner"][1]).get("value") == "0" and _err_and_busy(sts[0]["inner"][1]) and len(sts[0]["inner"]) == 2
        ok = ok and _stat_next(sts[1:3])
        c3 = strip(sts[3]["inner"][0])
        ok = ok and c3.get("kind") == "BinaryOperator" and c3.get("opcode") == "==" and _is_call_self_fsm(c3["inner"][0], "print_response_test") \
            and strip(c3["inner"][1]).get("value") == "0" and _ret_is(sts[3]["inner"][1], "CAT_STATUS_BUSY") and len(sts[3]["inner"]) == 2
        ok = ok and _is_call_self_fsm(sts[4], "end_processing_with_error") and sts[5].get("kind") == "ReturnStmt" \
            and strip(sts[5]["inner"][0]).get("referencedDecl", {}).get("name") == "CAT_STATUS_BUSY"
    if not ok:
        raise Unrecognised("T17: format_test_args has an unrecognised shape")
    out.append("/-- `format_test_args` of src/cat.c (`format_info_type` fetches the current variable through the cached pointer: the\n"
               "model's two ghost checks stand for the dereferences) -/\n"
               "def format_test_args (D : Desc) (s : St) (f : Fsm) : St × Int :=\n"
               "  let s : St := s.chkUb (s.cmdOf f).isSome;\n"
               "  let s : St := s.chkUb (s.idx f < (D.cmdD (s.cmdOf f)).varNum);\n"
               "  let r := formatInfoType D s f ((D.cmdD (s.cmdOf f)).varAt (s.idx f));\n"
               "  if !r.2 then (endError D r.1 f, Gen.CAT_STATUS_BUSY)\n"
               "  else\n"
               "    let n := nextFormatVar D r.1 f;\n"
               "    if n.2 then (n.1, Gen.CAT_STATUS_BUSY)          -- `return stat`: the only status other than OK it returns is BUSY\n"
               "    else\n"
               "      let p := printResponseTest D n.1 f;\n"
               "      if p.2 then (p.1, Gen.CAT_STATUS_BUSY)\n"
               "      else (endError D p.1 f, Gen.CAT_STATUS_BUSY)")
    # ---- format_read_args
    _, body = find_fn(ast, "format_read_args")
    sts = [x for x in body.get("inner", []) if not is_noise(x)]
    sts = [x for x in sts if not (x.get("kind") == "DeclStmt" and x["inner"][0].get("name") == "stat" and len(x["inner"][0].get("inner", [])) == 0)]
    ok = len(sts) == 10
    if ok:
        d = sts[0]["inner"][0] if sts[0].get("kind") == "DeclStmt" else {}
        ok = d.get("name") == "var" and d.get("inner") and _is_call_self_fsm(d["inner"][-1], "get_var_by_fsm")
        # if ((var->read != NULL) && (var->read(var) != 0)) { error; return BUSY; }
        c = strip(sts[1]["inner"][0]) if sts[1].get("kind") == "IfStmt" else {}
        if ok and c.get("kind") == "BinaryOperator" and c.get("opcode") == "&&":
            l, r = strip(c["inner"][0]), strip(c["inner"][1])
            lm = strip(l["inner"][0]) if l.get("kind") == "BinaryOperator" and l.get("opcode") == "!=" else {}
            rc = strip(r["inner"][0]) if r.get("kind") == "BinaryOperator" and r.get("opcode") == "!=" else {}
            callee = strip(rc["inner"][0]) if rc.get("kind") == "CallExpr" else {}
            ok = (lm.get("kind") == "MemberExpr" and lm.get("name") == "read" and strip(lm["inner"][0]).get("referencedDecl", {}).get("name") == "var"
                  and callee.get("kind") == "MemberExpr" and callee.get("name") == "read"
                  and strip(callee["inner"][0]).get("referencedDecl", {}).get("name") == "var" and len(rc["inner"]) == 2
                  and strip(rc["inner"][1]).get("referencedDecl", {}).get("name") == "var" and strip(r["inner"][1]).get("value") == "0"
                  and _err_and_busy(sts[1]["inner"][1]) and len(sts[1]["inner"]) == 2)
        else:
            ok = False
        # switch (var->type) { case T: stat = format_T(self, fsm); break; ... default: return CAT_STATUS_ERROR; }
        if ok and sts[2].get("kind") == "SwitchStmt":
            sc_ = strip(sts[2]["inner"][0])
            ok = sc_.get("kind") == "MemberExpr" and sc_.get("name") == "type" and strip(sc_["inner"][0]).get("referencedDecl", {}).get("name") == "var"
            seen = {}
            for labels, stmts in switch_arms(sts[2], None, None):
                b2 = [x for x in stmts if not is_noise(x) and x.get("kind") != "BreakStmt"]
                for l in labels:
                    if l == "default":
                        ok = ok and len(b2) == 1 and b2[0].get("kind") == "ReturnStmt" and \
                            strip(b2[0]["inner"][0]).get("referencedDecl", {}).get("name") == "CAT_STATUS_ERROR"
                        continue
                    e = strip(b2[0]) if len(b2) == 1 else {}
                    okk = e.get("kind") == "BinaryOperator" and e.get("opcode") == "=" and strip(e["inner"][0]).get("referencedDecl", {}).get("name") == "stat"
                    fn = strip(strip(e["inner"][1])["inner"][0]).get("referencedDecl", {}).get("name") if okk and strip(e["inner"][1]).get("kind") == "CallExpr" else None
                    okk = okk and _is_call_self_fsm(e["inner"][1], fn)
                    if not okk:
                        ok = False
                    seen[l] = fn
            ok = ok and seen == dict(VARTYPE_FN)
        else:
            ok = False
        # if (stat < 0) { error; return BUSY; }
        c = strip(sts[3]["inner"][0]) if ok and sts[3].get("kind") == "IfStmt" else {}
        ok = ok and c.get("kind") == "BinaryOperator" and c.get("opcode") == "<" and strip(c["inner"][0]).get("referencedDecl", {}).get("name") == "stat" \
            and strip(c["inner"][1]).get("value") == "0" and _err_and_busy(sts[3]["inner"][1]) and len(sts[3]["inner"]) == 2
        ok = ok and _stat_next(sts[4:6])
        d = sts[6]["inner"][0] if ok and sts[6].get("kind") == "DeclStmt" else {}
        ok = ok and d.get("name") == "cmd" and d.get("inner") and _is_call_self_fsm(d["inner"][-1], "get_command_by_fsm")
    if not ok:
        raise Unrecognised("T17: format_read_args has an unrecognised shape")
    VOID_FN_MODE[0] = False
    try:
        RETMAP[0] = {"CAT_STATUS_BUSY": "Gen.CAT_STATUS_BUSY"}
        tail = _cps(sts[7:], "(s, Gen.CAT_STATUS_BUSY)", "        ")
    finally:
        RETMAP[0] = None
    out.append("/-- `format_read_args` of src/cat.c -/\n"
               "def format_read_args (D : Desc) (s : St) (f : Fsm) (i : SvcIn) : St × Int :=\n"
               "  let s : St := s.chkUb (s.cmdOf f).isSome;\n"
               "  let s : St := s.chkUb (s.idx f < (D.cmdD (s.cmdOf f)).varNum);\n"
               "  let var := (D.cmdD (s.cmdOf f)).varAt (s.idx f);\n"
               "  let cb := varReadCb D s f var i;                  -- (var->read != NULL) && (var->read(var) != 0), with the ghost event\n"
               "  if cb.2 then (endError D cb.1 f, Gen.CAT_STATUS_BUSY)\n"
               "  else\n"
               "    let fv := formatVar D cb.1 f var;                -- the switch on var->type\n"
               "    if !fv.2 then (endError D fv.1 f, Gen.CAT_STATUS_BUSY)\n"
               "    else\n"
               "      let n := nextFormatVar D fv.1 f;\n"
               "      if n.2 then (n.1, Gen.CAT_STATUS_BUSY)        -- `return stat`: the only status other than OK it returns is BUSY\n"
               "      else\n"
               "        let s : St := n.1;\n"
               "        let cmd := D.cmdD (s.cmdOf f);\n"
               "        " + tail)
    return out


# ------------------------------------------------------------------------------------ T18
# `parse_write_args`, recognised statement by statement: the dispatch on the variable's type to the parser and the
# range validation, the variable's write callback, the advance to the next argument, the end of the argument list.

PARSE_ARMS = {"CAT_VAR_INT_DEC": ("parse_int_decimal", "validate_int_range"), "CAT_VAR_UINT_DEC": ("parse_uint_decimal", "validate_uint_range"),
              "CAT_VAR_NUM_HEX": ("parse_num_hexadecimal", "validate_uint_range"), "CAT_VAR_BUF_HEX": ("parse_buffer_hexadecimal", None),
              "CAT_VAR_BUF_STRING": ("parse_buffer_string", None)}


def _ackerr_busy(st):
    sts = [x for x in _block(st) if not is_noise(x)]
    return len(sts) == 2 and _is_self_call(sts[0], "ack_error") and sts[1].get("kind") == "ReturnStmt" and \
        strip(sts[1]["inner"][0]).get("referencedDecl", {}).get("name") == "CAT_STATUS_BUSY"


def _callee_name(n):
    e = strip(n)
    while e.get("kind") == "CStyleCastExpr" and e.get("inner"):
        e = strip(e["inner"][0])
    if e.get("kind") != "CallExpr":
        return None
    return strip(e["inner"][0]).get("referencedDecl", {}).get("name")


def _first_arg_self(n):
    e = strip(n)
    return e.get("kind") == "CallExpr" and len(e["inner"]) >= 2 and strip(e["inner"][1]).get("referencedDecl", {}).get("name") == "self"


def t18(ast):
    _, body = find_fn(ast, "parse_write_args")
    sts = [x for x in body.get("inner", []) if not is_noise(x) and x.get("kind") != "DeclStmt"]
    ok = len(sts) == 8 and sts[0].get("kind") == "SwitchStmt"
    if ok:
        sc_ = strip(sts[0]["inner"][0])
        ok = sc_.get("kind") == "MemberExpr" and sc_.get("name") == "type" and _member_path(sc_["inner"][0]) == "var"
        seen = set()
        for labels, stmts in switch_arms(sts[0], None, None):
            b2 = [x for x in stmts if not is_noise(x) and x.get("kind") != "BreakStmt"]
            for l in labels:
                if l == "default":
                    ok = ok and len(b2) == 1 and b2[0].get("kind") == "ReturnStmt" and \
                        strip(b2[0]["inner"][0]).get("referencedDecl", {}).get("name") == "CAT_STATUS_ERROR"
                    continue
                if l not in PARSE_ARMS:
                    ok = False
                    continue
                pf, vf = PARSE_ARMS[l]
                want = 3 if vf else 2
                if len(b2) != want:
                    ok = False
                    continue
                e = strip(b2[0])
                okk = e.get("kind") == "BinaryOperator" and e.get("opcode") == "=" and strip(e["inner"][0]).get("referencedDecl", {}).get("name") == "stat" \
                    and _callee_name(e["inner"][1]) == pf and _first_arg_self(e["inner"][1])
                c1 = strip(b2[1]["inner"][0]) if b2[1].get("kind") == "IfStmt" else {}
                okk = okk and c1.get("kind") == "BinaryOperator" and c1.get("opcode") == "<" and \
                    strip(c1["inner"][0]).get("referencedDecl", {}).get("name") == "stat" and strip(c1["inner"][1]).get("value") == "0" and \
                    _ackerr_busy(b2[1]["inner"][1]) and len(b2[1]["inner"]) == 2
                if vf:
                    c2 = strip(b2[2]["inner"][0]) if b2[2].get("kind") == "IfStmt" else {}
                    okk = okk and c2.get("kind") == "BinaryOperator" and c2.get("opcode") == "!=" and _callee_name(c2["inner"][0]) == vf and \
                        _first_arg_self(c2["inner"][0]) and strip(c2["inner"][1]).get("value") == "0" and _ackerr_busy(b2[2]["inner"][1]) and len(b2[2]["inner"]) == 2
                ok = ok and okk
                seen.add(l)
        ok = ok and seen == set(PARSE_ARMS)
    # if ((self->var->write != NULL) && (self->var->write(self->var, self->write_size) != 0)) { ack_error; return BUSY; }
    if ok:
        c = strip(sts[1]["inner"][0]) if sts[1].get("kind") == "IfStmt" else {}
        ok = c.get("kind") == "BinaryOperator" and c.get("opcode") == "&&"
        if ok:
            l, r = strip(c["inner"][0]), strip(c["inner"][1])
            lm = strip(l["inner"][0]) if l.get("kind") == "BinaryOperator" and l.get("opcode") == "!=" else {}
            rc = strip(r["inner"][0]) if r.get("kind") == "BinaryOperator" and r.get("opcode") == "!=" else {}
            callee = strip(rc["inner"][0]) if rc.get("kind") == "CallExpr" else {}
            ok = (lm.get("kind") == "MemberExpr" and lm.get("name") == "write" and _member_path(lm["inner"][0]) == "var"
                  and callee.get("kind") == "MemberExpr" and callee.get("name") == "write" and _member_path(callee["inner"][0]) == "var"
                  and len(rc["inner"]) == 3 and _member_path(rc["inner"][1]) == "var" and _member_path(rc["inner"][2]) == "write_size"
                  and strip(r["inner"][1]).get("value") == "0" and _ackerr_busy(sts[1]["inner"][1]) and len(sts[1]["inner"]) == 2)
    # if ((++self->index < self->cmd->var_num) && (stat > 0)) { self->var = ...; return BUSY; }
    if ok:
        c = strip(sts[2]["inner"][0]) if sts[2].get("kind") == "IfStmt" else {}
        ok = c.get("kind") == "BinaryOperator" and c.get("opcode") == "&&"
        if ok:
            l, r = strip(c["inner"][0]), strip(c["inner"][1])
            li = strip(l["inner"][0]) if l.get("kind") == "BinaryOperator" and l.get("opcode") == "<" else {}
            ok = (li.get("kind") == "UnaryOperator" and li.get("opcode") == "++" and not li.get("isPostfix") and _member_path(li["inner"][0]) == "index"
                  and _cmd_member(l["inner"][1]) == "var_num"
                  and r.get("kind") == "BinaryOperator" and r.get("opcode") == ">" and strip(r["inner"][0]).get("referencedDecl", {}).get("name") == "stat"
                  and strip(r["inner"][1]).get("value") == "0")
            th = [x for x in _block(sts[2]["inner"][1]) if not is_noise(x)]
            ok = ok and len(th) == 2 and _member_path(strip(th[0])["inner"][0]) == "var" and th[1].get("kind") == "ReturnStmt" and \
                strip(th[1]["inner"][0]).get("referencedDecl", {}).get("name") == "CAT_STATUS_BUSY"
    # if (stat > 0) { ack_error; return BUSY; }
    if ok:
        c = strip(sts[3]["inner"][0]) if sts[3].get("kind") == "IfStmt" else {}
        ok = c.get("kind") == "BinaryOperator" and c.get("opcode") == ">" and strip(c["inner"][0]).get("referencedDecl", {}).get("name") == "stat" \
            and strip(c["inner"][1]).get("value") == "0" and _ackerr_busy(sts[3]["inner"][1])
    # if ((self->cmd->need_all_vars != false) && (self->index != self->cmd->var_num)) { ack_error; return BUSY; }
    if ok:
        c = strip(sts[4]["inner"][0]) if sts[4].get("kind") == "IfStmt" else {}
        ok = c.get("kind") == "BinaryOperator" and c.get("opcode") == "&&"
        if ok:
            l, r = strip(c["inner"][0]), strip(c["inner"][1])
            ok = (l.get("kind") == "BinaryOperator" and l.get("opcode") == "!=" and _cmd_member(l["inner"][0]) == "need_all_vars"
                  and r.get("kind") == "BinaryOperator" and r.get("opcode") == "!=" and _member_path(r["inner"][0]) == "index"
                  and _cmd_member(r["inner"][1]) == "var_num" and _ackerr_busy(sts[4]["inner"][1]))
            try:
                ok = ok and _rhs(l["inner"][1], "bool", [], {}) == "false"
            except Unrecognised:
                ok = False
    # if (self->cmd->write == NULL) { ack_ok; return BUSY; }   self->state = WRITE_LOOP; return BUSY;
    if ok:
        c = strip(sts[5]["inner"][0]) if sts[5].get("kind") == "IfStmt" else {}
        th = [x for x in _block(sts[5]["inner"][1]) if not is_noise(x)] if sts[5].get("kind") == "IfStmt" else []
        ok = (c.get("kind") == "BinaryOperator" and c.get("opcode") == "==" and _cmd_member(c["inner"][0]) == "write" and len(th) == 2
              and _is_self_call(th[0], "ack_ok") and th[1].get("kind") == "ReturnStmt")
        e = strip(sts[6])
        ok = ok and e.get("kind") == "BinaryOperator" and e.get("opcode") == "=" and _member_path(e["inner"][0]) == "state" and \
            strip(e["inner"][1]).get("referencedDecl", {}).get("name") == "CAT_STATE_WRITE_LOOP" and sts[7].get("kind") == "ReturnStmt" and \
            strip(sts[7]["inner"][0]).get("referencedDecl", {}).get("name") == "CAT_STATUS_BUSY"
    if not ok:
        raise Unrecognised("T18: parse_write_args has an unrecognised shape")
    return ["/-- `parse_write_args` of src/cat.c: `parseVarValue` is the model of the switch on `self->var->type` (parser, then range\n"
            "validation for the three numeric types; any failure is answered with ERROR), `varWriteCb` of the write callback -/\n"
            "def parse_write_args (D : Desc) (s : St) (i : SvcIn) : St × Int :=\n"
            "  let s : St := s.chkUb s.cmd.isSome;\n"
            "  let s : St := s.chkUb (s.index < (D.cmdD s.cmd).varNum);\n"
            "  let var := (D.cmdD s.cmd).varAt s.index;\n"
            "  let pr := parseVarValue D s var;\n"
            "  if !pr.2.2 then (ackError D pr.1, Gen.CAT_STATUS_BUSY)\n"
            "  else\n"
            "    let cb := varWriteCb D pr.1 var i;\n"
            "    if cb.2 then (ackError D cb.1, Gen.CAT_STATUS_BUSY)\n"
            "    else\n"
            "      let s : St := { cb.1 with index := cb.1.index + 1 };\n"
            "      if decide (s.index < (D.cmdD s.cmd).varNum) && decide (pr.2.1 > 0) then (s, Gen.CAT_STATUS_BUSY)\n"
            "      else if pr.2.1 > 0 then (ackError D s, Gen.CAT_STATUS_BUSY)\n"
            "      else if (D.cmdD s.cmd).needAll && decide (s.index ≠ (D.cmdD s.cmd).varNum) then (ackError D s, Gen.CAT_STATUS_BUSY)\n"
            "      else if !(D.cmdD s.cmd).hasWrite then (ackOk D s, Gen.CAT_STATUS_BUSY)\n"
            "      else ({ s with state := .writeLoop }, Gen.CAT_STATUS_BUSY)"]


# ------------------------------------------------------------------------------------ T19
# the four handler loops around the T3 tables: which handler is called, with which arguments, and that the
# function returns CAT_STATUS_BUSY after the switch.  Recognisers: the call expression must be exactly the
# expected one (handler, command pointer, buffer, length/position arguments, capacity), the Lean text is fixed.

def _unc(n):
    n = strip(n)
    while n.get("kind") in ("CStyleCastExpr",) and n.get("inner"):
        n = strip(n["inner"][0])
    return n


def _addr_of(n, path):
    n = _unc(n)
    return n.get("kind") == "UnaryOperator" and n.get("opcode") == "&" and _member_path(n["inner"][0]) == path


def _loop_shape(ast, name):
    """body = switch (<call>) {...}  return CAT_STATUS_BUSY;  -> the call expression"""
    _, body = find_fn(ast, name)
    sts = [x for x in body.get("inner", []) if not is_noise(x)]
    if len(sts) != 2 or sts[0].get("kind") != "SwitchStmt" or sts[1].get("kind") != "ReturnStmt" or \
            strip(sts[1]["inner"][0]).get("referencedDecl", {}).get("name") != "CAT_STATUS_BUSY":
        raise Unrecognised("T19: %s is not `switch (handler call) {...} return CAT_STATUS_BUSY;`" % name)
    return strip(sts[0]["inner"][0])


def _cmd_handler_call(call, handler):
    """self->cmd-><handler>(self->cmd, ...) -> the remaining arguments"""
    if call.get("kind") != "CallExpr":
        return None
    cal = strip(call["inner"][0])
    if not (cal.get("kind") == "MemberExpr" and cal.get("name") == handler and _member_path(cal["inner"][0]) == "cmd"):
        return None
    if len(call["inner"]) < 2 or _member_path(call["inner"][1]) != "cmd":
        return None
    return call["inner"][2:]


def _by_fsm_helper(ast, name, handler):
    """cmd = get_command_by_fsm(self, fsm); switch (fsm) { case ATCMD: return cmd-><handler>(cmd, buf, &pos, size); case UNSOLICITED: ... }"""
    _, body = find_fn(ast, name)
    sts = [x for x in body.get("inner", []) if not is_noise(x)]
    ok = len(sts) == 3 and sts[0].get("kind") == "DeclStmt" and sts[1].get("kind") == "SwitchStmt" and sts[2].get("kind") == "ReturnStmt"
    if ok:
        d = sts[0]["inner"][0]
        ok = d.get("name") == "cmd" and d.get("inner") and _is_call_self_fsm(d["inner"][-1], "get_command_by_fsm") and \
            strip(sts[1]["inner"][0]).get("referencedDecl", {}).get("name") == "fsm"
    seen = set()
    if ok:
        want = {"CAT_FSM_TYPE_ATCMD": ("get_atcmd_buf", "position", "get_atcmd_buf_size"),
                "CAT_FSM_TYPE_UNSOLICITED": ("get_unsolicited_buf", "unsolicited_fsm.position", "get_unsolicited_buf_size")}
        for labels, stmts in switch_arms(sts[1], None, None):
            b = [x for x in stmts if not is_noise(x) and x.get("kind") != "BreakStmt"]
            for l in labels:
                if l == "default":
                    ok = ok and not b
                    continue
                if l not in want or len(b) != 1 or b[0].get("kind") != "ReturnStmt":
                    ok = False
                    continue
                call = strip(b[0]["inner"][0])
                cal = strip(call["inner"][0]) if call.get("kind") == "CallExpr" else {}
                buf, pos, size = want[l]
                ok = ok and cal.get("kind") == "MemberExpr" and cal.get("name") == handler and \
                    strip(cal["inner"][0]).get("referencedDecl", {}).get("name") == "cmd" and len(call["inner"]) == 5 and \
                    strip(call["inner"][1]).get("referencedDecl", {}).get("name") == "cmd" and _is_self_call(_unc(call["inner"][2]), buf) and \
                    _addr_of(call["inner"][3], pos) and _is_self_call(call["inner"][4], size)
                seen.add(l)
        ok = ok and seen == set(want)
    if not ok:
        raise Unrecognised("T19: %s has an unrecognised shape" % name)


def t19(ast):
    out = []
    call = _loop_shape(ast, "process_write_loop")
    a = _cmd_handler_call(call, "write")
    if a is None or len(a) != 3 or not _is_self_call(_unc(a[0]), "get_atcmd_buf") or _member_path(a[1]) != "length" or _member_path(a[2]) != "index":
        raise Unrecognised("T19: the write handler is not called as write(cmd, command buffer, length, index)")
    out.append("/-- `process_write_loop` of src/cat.c: `self->cmd->write(self->cmd, get_atcmd_buf(self), self->length, self->index)`, then the\n"
               "calls of the return-code table `Gen.process_write_loop` (T3).  The handler event carries what the handler is given: the first\n"
               "`length` bytes of the command buffer, whether a NUL follows them, `length` and `index`. -/\n"
               "def process_write_loop_fn (D : Desc) (s : St) (i : SvcIn) : St × Int :=\n"
               "  let s : St := s.chkUb s.cmd.isSome;                                          -- ghost: self->cmd is dereferenced\n"
               "  let data := (region D s .cmd 0).take s.length;\n"
               "  let z := (getB D s .cmd s.length == 0 && s.length < D.cmdCap);\n"
               "  let s : St := s.emit (.handler .cmd .write (s.cmd.getD 0) data z s.length s.index i.hc.ret);\n"
               "  let s : St := applyNested D .cmd false s i.hc.acts;                          -- API calls made by the handler\n"
               "  (doCalls D .cmd s (Gen.process_write_loop i.hc.ret), Gen.CAT_STATUS_BUSY)")
    call = _loop_shape(ast, "process_run_loop")
    a = _cmd_handler_call(call, "run")
    if a is None or len(a) != 0:
        raise Unrecognised("T19: the run handler is not called as run(cmd)")
    out.append("/-- `process_run_loop` of src/cat.c: `self->cmd->run(self->cmd)`, then the calls of `Gen.process_run_loop` (T3) -/\n"
               "def process_run_loop_fn (D : Desc) (s : St) (i : SvcIn) : St × Int :=\n"
               "  let s : St := s.chkUb s.cmd.isSome;\n"
               "  let s : St := s.emit (.handler .cmd .run (s.cmd.getD 0) [] true 0 0 i.hc.ret);\n"
               "  let s : St := applyNested D .cmd false s i.hc.acts;\n"
               "  (doCalls D .cmd s (Gen.process_run_loop i.hc.ret), Gen.CAT_STATUS_BUSY)")
    for kind, helper, loop in (("read", "call_cmd_read_by_fsm", "process_read_loop"), ("test", "call_cmd_test_by_fsm", "process_test_loop")):
        _by_fsm_helper(ast, helper, kind)
        call = _loop_shape(ast, loop)
        if not _is_call_self_fsm(call, helper):
            raise Unrecognised("T19: %s does not switch on %s(self, fsm)" % (loop, helper))
        out.append("/-- `%s` of src/cat.c with `%s`: the %s handler of the machine's command is given that machine's buffer,\n"
                   "the address of its position and its capacity; then the calls of `Gen.%s` (T3) -/\n"
                   "def %s_fn (D : Desc) (s : St) (f : Fsm) (i : SvcIn) : St × Int :=\n"
                   "  let s : St := s.chkUb (s.cmdOf f).isSome;                                     -- ghost: get_command_by_fsm's result is dereferenced\n"
                   "  let ans := match f with | .cmd => i.hc | .uns => i.hu;\n"
                   "  let c := cstr D s f;\n"
                   "  let s : St := s.emit (.handler f .%s ((s.cmdOf f).getD 0) c.1 c.2 (s.pos f) (D.capOf f) ans.ret);\n"
                   "  let s : St := applyNested D f true s ans.acts;                                -- API calls and buffer edits made by the handler\n"
                   "  (doCalls D f s (Gen.%s ans.ret f), Gen.CAT_STATUS_BUSY)" % (loop, helper, kind, loop, loop, kind, loop))
    return out


# ------------------------------------------------------------------------------------ T20
# the command list: `cmd_list_next_cmd`, `print_current_cmd_full_name`, `print_cmd_list` through the statement translator
# (switch on `self->cmd_type`, `cond ? a : b` into the request type, the availability conditions, the printer calls).

def t20(ast):
    out = []
    _, body = find_fn(ast, "cmd_list_next_cmd")
    sts = [x for x in body.get("inner", []) if not is_noise(x)]
    RETMAP[0] = {"0": "false", "1": "true"}
    try:
        out.append("/-- `cmd_list_next_cmd` of src/cat.c -/\ndef cmd_list_next_cmd (D : Desc) (s : St) : St × Bool :=\n  %s" % _cps(sts, "s", "    "))
    finally:
        RETMAP[0] = None
    _, body = find_fn(ast, "print_current_cmd_full_name")
    sts = [x for x in body.get("inner", []) if not is_noise(x)]
    RETMAP[0] = {"-1": "false", "0": "true"}     # the model's function returns "succeeded"
    try:
        out.append("/-- `print_current_cmd_full_name` of src/cat.c; the Bool is \"returned 0\" -/\n"
                   "def print_current_cmd_full_name (D : Desc) (s : St) (suffix : List Byte) : St × Bool :=\n  %s" % _cps(sts, "s", "    "))
    finally:
        RETMAP[0] = None
    _, body = find_fn(ast, "print_cmd_list")
    sts = [x for x in body.get("inner", []) if not is_noise(x)]
    VOID_FN_MODE[0] = True
    try:
        out.append("/-- `print_cmd_list` of src/cat.c (the first line is the model's ghost check that the table cursor is inside the table) -/\n"
                   "def print_cmd_list (D : Desc) (s : St) : St :=\n  let s : St := s.chkUb (s.index < D.commandsNum);\n  %s" % _cps(sts, "s", "    "))
    finally:
        VOID_FN_MODE[0] = False
    return out


def t9_steps(ast, names):
    defs = []
    for name in names:
        _, body = find_fn(ast, name)
        sts = [x for x in body.get("inner", []) if not is_noise(x)]
        if not sts or sts[-1].get("kind") != "ReturnStmt":
            raise Unrecognised("T9: %s does not end with a return" % name)
        _check_ret(sts[-1])
        defs.append("/-- `%s` of src/cat.c -/\ndef %s (D : Desc) (s : St) : St × Int :=\n  (%s, Gen.CAT_STATUS_BUSY)"
                    % (name, name, _step_seq(sts, "    ")))
    return defs


# Gen/Steps/<Module>.lean: one generated file per group of functions, so that a function whose shape is no longer recognised
# (or whose text changed and whose equality proof no longer checks) touches only the properties built on that group.
# (module, translator items, property ids, producer)
STEP_MODULES = [
    ("Wait", "T9", ("C11",), lambda ast: t9_steps(ast, ["process_io_write_wait", "unsolicited_process_io_write_wait"])),
    ("Hold", "T9/T14", ("C14",), lambda ast: t9_steps(ast, ["process_hold_state"]) + t14_hold(ast)),
    ("Found", "T9", ("C02", "C09"), lambda ast: t9_steps(ast, ["command_not_found", "command_found"])),
    ("Output", "T10", ("C11", "C12"), lambda ast: [_writer(ast, *w) for w in WRITERS]),
    ("Resolve", "T11", ("C02", "C09"), lambda ast: t11(ast)[1:]),
    ("Collect", "T11", ("C06",), lambda ast: t11(ast)[:1]),
    ("ByFsm", "T12", ("C07", "C10", "C19"), lambda ast: t12(ast)),
    ("Ring", "T13", ("C13",), lambda ast: t13(ast)),
    ("ReadChar", "T14", ("C01", "C12", "C15"), lambda ast: t14_read(ast)),
    ("Lanes", "T15", ("C02",), lambda ast: t15(ast)),
    ("Format", "T16/T17", ("C07", "C08", "C19"), lambda ast: t16(ast) + t17(ast)),
    ("ParseArgs", "T18", ("C04", "C05", "C08"), lambda ast: t18(ast)),
    ("Loops", "T19", ("C06", "C10", "C14"), lambda ast: t19(ast)),
    ("CmdList", "T14/T20", ("C10", "C19"), lambda ast: t14_list(ast) + t20(ast)),
    ("Leaves", "T22", ("C02", "C03", "C08", "C09", "C19", "C20"), lambda ast: t22(ast)),
]
SETTER_MODULES = [
    ("Reset", "T7", ("C01", "C14", "C20"), lambda ast: t7(ast, ["reset_state", "unsolicited_reset_state"])),
    ("Prepare", "T7", ("C02", "C20"), lambda ast: t7(ast, ["prepare_search_command", "prepare_parse_command"])),
    ("Flush", "T7", ("C11", "C20"), lambda ast: t7(ast, ["start_flush_io_buffer", "unsolicited_start_flush_io_buffer", "start_flush_io_buffer_raw"])),
    ("HoldSet", "T7", ("C14", "C20"), lambda ast: t7(ast, ["enable_hold_state"])),
]
READER_MODULES = [
    ("Frame", "T8", ("C01", "C20"), lambda ast: t8(ast, ["error_state", "process_idle_state", "parse_prefix"])),
    ("Name", "T8", ("C01", "C02", "C20"), lambda ast: t8(ast, ["parse_command"])),
    ("Ack", "T8", ("C02", "C20"), lambda ast: t8(ast, ["wait_read_acknowledge", "wait_test_acknowledge"])),
]
MODULE_GROUPS = [("Steps", "steps", STEP_MODULES), ("Setters", "setters", SETTER_MODULES), ("Readers", "readers", READER_MODULES)]


def step_module_props():
    d = {"layout." + k: set(v) for k, v in COUNTER_PROPS.items()}
    d.update({"layout.flag_" + k: set(v) for k, v in FLAG_PROPS.items()})
    d.update({"fingerprint." + k: set(v) for k, v in FP_PROPS.items()})
    d.update(_module_props())
    return d


def _module_props():
    return {"%s.%s" % (key, m): set(props) for _, key, mods in MODULE_GROUPS for m, _, props, _ in mods}


def regenerate_modules(ast=None):
    rep = {}
    err = ""
    try:
        ast = ast or load_ast()
    except Exception as ex:
        ast = None
        err = repr(ex)[:200]
    for dirname, key, modules in MODULE_GROUPS:
        gdir = os.path.join(lib.LEAN, "CatVerif/Gen", dirname)
        os.makedirs(gdir, exist_ok=True)
        for mod, items, _props, produce in modules:
            path = os.path.join(gdir, mod + ".lean")
            exp = os.path.join(gdir, mod + ".expected.lean")
            try:
                if ast is None:
                    raise Unrecognised(err)
                defs = produce(ast)
                hdr = ("/-\n  GENERATED by tools/translate.py from functions of src/cat.c (translator item %s). Do not edit.\n"
                       "  `Proofs/%s/%s.lean` proves the model's functions equal to these.\n-/\n"
                       "import CatVerif.Model.Fsm\nnamespace Cat.Gen\nopen Cat St\nset_option linter.unusedVariables false\n\n" % (items, dirname, mod))
                txt = hdr + "\n\n".join(defs) + "\n\nend Cat.Gen\n"
                status = "translated"
            except Exception as ex:
                VOID_FN_MODE[0] = False
                RETMAP[0] = None
                if not os.path.exists(exp):
                    rep["%s.%s" % (key, mod)] = "failed: " + repr(ex)[:200]
                    continue
                txt = open(exp).read()
                status = "fallback to expected text: " + repr(ex)[:200]
            with lib.Lock("gen"):
                old = open(path).read() if os.path.exists(path) else ""
                if old != txt:
                    with open(path, "w") as f:
                        f.write(txt)
            rep["%s.%s" % (key, mod)] = status
    return rep


# ------------------------------------------------------------------------------------ T21
# the unsigned counters of the object and of the descriptor that the model keeps as unbounded natural numbers: the model
# describes them as long as they cannot wrap, i.e. as long as they are as wide as `size_t` on the 64-bit target (no buffer,
# table or line has 2^64 elements).  The widths are read from the struct declarations; the property files state
# `Gen.width_<struct>_<field> = 64` for the counters they rest on.

COUNTERS = [("cat_object", "obj", ["index", "partial_cntr", "length", "position", "write_size", "commands_num"]),
            ("cat_unsolicited_fsm", "uns", ["index", "position", "unsolicited_cmd_buffer_tail", "unsolicited_cmd_buffer_head",
                                            "unsolicited_cmd_buffer_items_count"]),
            ("cat_variable", "var", ["data_size"]), ("cat_command", "cmd", ["var_num"]), ("cat_command_group", "group", ["cmd_num"]),
            ("cat_descriptor", "desc", ["cmd_group_num", "buf_size", "unsolicited_buf_size"])]
UWIDTH = {"unsigned long": 64, "unsigned long long": 64, "unsigned int": 32, "unsigned short": 16, "unsigned char": 8, "unsigned __int128": 128}
COUNTER_PROPS = {
    "obj_index": {"C02", "C03", "C04", "C05", "C07", "C08", "C09", "C19"}, "obj_partial_cntr": {"C02", "C03", "C09"},
    "obj_length": {"C01", "C02", "C03", "C04", "C05", "C06", "C07", "C20"},
    "obj_position": {"C03", "C04", "C05", "C06", "C07", "C10", "C11", "C19"}, "obj_write_size": {"C03", "C05", "C07"},
    "obj_commands_num": {"C02", "C03", "C09", "C19"},
    "uns_index": {"C03", "C07", "C13", "C19"}, "uns_position": {"C03", "C07", "C10", "C11", "C13", "C19"},
    "uns_unsolicited_cmd_buffer_tail": {"C03", "C13"}, "uns_unsolicited_cmd_buffer_head": {"C03", "C13"},
    "uns_unsolicited_cmd_buffer_items_count": {"C03", "C13", "C15", "C18"},
    "var_data_size": {"C03", "C04", "C05", "C07", "C08"}, "cmd_var_num": {"C03", "C04", "C05", "C07", "C08", "C19"},
    "group_cmd_num": {"C02", "C03", "C09", "C19"},
    "desc_cmd_group_num": {"C02", "C03", "C09", "C19"}, "desc_buf_size": {"C03", "C06", "C11"}, "desc_unsolicited_buf_size": {"C03", "C06", "C11"},
}


# the descriptor's and the object's flags: `bool` (any non-zero value stored means true; a 1-bit bit-field would keep bit 0 only)
FLAG_FIELDS = [("cat_command", "cmd", ["need_all_vars", "only_test", "disable", "implicit_write"]), ("cat_command_group", "group", ["disable"]),
               ("cat_object", "obj", ["cr_flag", "hold_state_flag", "implicit_write_flag"])]
FLAG_PROPS = {"cmd_need_all_vars": {"C04", "C05"}, "cmd_only_test": {"C09", "C19"}, "cmd_disable": {"C02", "C09", "C19"},
              "cmd_implicit_write": {"C02", "C06"}, "group_disable": {"C02", "C09", "C19"}, "obj_cr_flag": {"C20"},
              "obj_hold_state_flag": {"C14", "C18"}, "obj_implicit_write_flag": {"C02"}}


def t21(ast):
    recs = {}
    for n in ast["inner"]:
        if n.get("kind") == "RecordDecl" and n.get("inner"):
            fs = {f["name"]: f.get("type", {}) for f in n["inner"] if f.get("kind") == "FieldDecl"}
            if fs:
                recs[n.get("name")] = fs
    defs, rep = [], {}
    for rec, short, fields in COUNTERS:
        for fld in fields:
            key = "%s_%s" % (short, fld)
            ty = recs.get(rec, {}).get(fld)
            if ty is None:
                defs.append("def width_%s : Nat := 0" % key)
                rep["layout." + key] = "anomaly: struct %s has no field %s" % (rec, fld)
                continue
            base = ty.get("desugaredQualType") or ty.get("qualType")
            w = UWIDTH.get(base, 0)
            defs.append("def width_%s : Nat := %d        -- `%s %s` in struct %s" % (key, w, ty.get("qualType"), fld, rec))
            rep["layout." + key] = "translated" if w == 64 else \
                "anomaly: %s.%s is declared `%s` (%s): the model keeps it as an unbounded counter, which describes a 64-bit size_t only" % (
                    rec, fld, ty.get("qualType"), ("%d bits" % w) if w else "not an unsigned integer type")
    for rec, short, fields in FLAG_FIELDS:
        for n in ast["inner"]:
            if n.get("kind") == "RecordDecl" and n.get("name") == rec and n.get("inner"):
                for f in n["inner"]:
                    if f.get("kind") == "FieldDecl" and f.get("name") in fields:
                        ty = f.get("type", {})
                        isbool = (ty.get("desugaredQualType") or ty.get("qualType")) in ("bool", "_Bool") and not f.get("isBitfield")
                        rep["layout.flag_%s_%s" % (short, f["name"])] = "translated" if isbool else \
                            "anomaly: %s.%s is declared `%s`%s: the model keeps it as a Boolean that is true for every non-zero value stored" % (
                                rec, f["name"], ty.get("qualType"), " as a bit-field" if f.get("isBitfield") else "")
    return defs, rep


# ------------------------------------------------------------------------------------ T22 / T23
# Fingerprints.  Every remaining function the model describes by hand is reduced to a canonical S-expression of its body
# (casts that do not change the value, parentheses and the `((void)0)` left by assert are dropped) and compared with the
# one recorded in tools/fingerprints.json when the model function was written against it.  T22: for the leaves with a direct
# transliteration (the two walks over the command groups, the access test, the printing primitive and its by-machine helpers,
# the line-break choice) the fixed Lean text is emitted into Gen/Steps/Leaves.lean and the model's functions are proved equal to
# it.  T23: for the others (variable parsers, validators, formatters, `cat_init`, the bodies of the public API) the fingerprint
# only says "this is still the function the model was written for"; a changed body is reported as a broken tie for the
# properties resting on that function, and the failing-input search takes over.

FINGERPRINTS = os.path.join(os.path.dirname(os.path.abspath(__file__)), "fingerprints.json")
LEAF_FUNCS = ["get_command_by_index", "is_command_disable", "is_variables_access_possible", "get_left_buffer_space_by_fsm",
              "get_current_buffer_by_fsm", "move_position_by_fsm", "print_nstring_to_buf", "print_string_to_buf", "get_new_line_chars",
              "get_command_by_fsm", "get_var_by_fsm"]
FP_PROPS = {
    "parse_int_decimal": {"C04"}, "parse_uint_decimal": {"C04"}, "parse_num_hexadecimal": {"C04"},
    "validate_int_range": {"C04"}, "validate_uint_range": {"C04"},
    "parse_buffer_hexadecimal": {"C05"}, "parse_buffer_string": {"C05"},
    "print_format_num": {"C03", "C07"}, "format_int_decimal": {"C07"}, "format_uint_decimal": {"C07"}, "format_num_hexadecimal": {"C07"},
    "format_buffer_hexadecimal": {"C03", "C07"}, "format_buffer_string": {"C03", "C07"}, "format_info_type": {"C19"},
    "cat_init": {"C01", "C02", "C03", "C13", "C14", "C16", "C17", "C18", "C20"}, "unsolicited_init": {"C13", "C18"},
    "cat_service": {"C11", "C15", "C16"}, "cat_is_busy": {"C16", "C18"}, "cat_is_hold": {"C14", "C16", "C18"},
    "cat_hold_exit": {"C14", "C16"}, "cat_trigger_unsolicited_event": {"C13", "C16"}, "cat_trigger_unsolicited_read": {"C13"},
    "cat_trigger_unsolicited_test": {"C13"}, "cat_is_unsolicited_buffer_full": {"C13", "C16"},
    "cat_is_unsolicited_event_buffered": {"C13", "C16"}, "cat_get_processed_command": {"C13"},
    "ack_error": {"C01", "C10", "C11", "C20"}, "ack_ok": {"C01", "C10", "C11", "C20"},
    "get_atcmd_buf": {"C03", "C06"}, "get_unsolicited_buf": {"C03", "C06"},
}


def _sexp(n):
    if not isinstance(n, dict):
        return "_"
    n = strip(n)
    k = n.get("kind")
    kids = [c for c in (n.get("inner") or []) if isinstance(c, dict)]
    if k == "CompoundStmt":
        return "{" + " ".join(_sexp(c) for c in kids if not is_noise(c)) + "}"
    if k == "DeclRefExpr":
        return n.get("referencedDecl", {}).get("name", "?")
    if k == "IntegerLiteral":
        return str(n.get("value"))
    if k == "CharacterLiteral":
        return "'%s'" % n.get("value")
    if k == "StringLiteral":
        return n.get("value", '""')
    if k == "MemberExpr":
        return "(%s %s %s)" % ("->" if n.get("isArrow") else ".", _sexp(kids[0]) if kids else "?", n.get("name"))
    if k in ("BinaryOperator", "CompoundAssignOperator"):
        return "(%s %s %s)" % (n.get("opcode"), _sexp(kids[0]), _sexp(kids[1]))
    if k == "UnaryOperator":
        return "(%s%s %s)" % (n.get("opcode"), "post" if n.get("isPostfix") else "", _sexp(kids[0]))
    if k == "CStyleCastExpr":
        return "(cast %s %s)" % (n.get("type", {}).get("qualType", "?").replace(" ", ""), _sexp(kids[0]))
    if k == "VarDecl":
        return "(var %s %s%s)" % (n.get("type", {}).get("qualType", "?").replace(" ", ""), n.get("name"),
                                  (" " + _sexp(kids[-1])) if kids else "")
    if k == "UnaryExprOrTypeTraitExpr":
        return "(%s %s)" % (n.get("name"), n.get("argType", {}).get("qualType", "") or " ".join(_sexp(c) for c in kids))
    body = " ".join(("_" if not isinstance(c, dict) or not c else _sexp(c)) for c in (n.get("inner") or []) if not (isinstance(c, dict) and c and is_noise(c)))
    return "(%s%s)" % (k, (" " + body) if body else "")


def fingerprint(ast, name):
    decl, body = find_fn(ast, name)
    params = " ".join("%s:%s" % (p.get("name"), p.get("type", {}).get("qualType", "?").replace(" ", ""))
                      for p in decl.get("inner", []) if p.get("kind") == "ParmVarDecl")
    return "%s (%s) %s" % (decl.get("type", {}).get("qualType", "?").split("(")[0].strip().replace(" ", ""), params, _sexp(body))


def _fp_diff(a, b):
    i = 0
    while i < min(len(a), len(b)) and a[i] == b[i]:
        i += 1
    return "at %d: source `%s` / recorded `%s`" % (i, a[max(0, i - 30):i + 50], b[max(0, i - 30):i + 50])


def write_fingerprints():
    ast = load_ast()
    d = {f: fingerprint(ast, f) for f in LEAF_FUNCS + sorted(FP_PROPS)}
    with open(FINGERPRINTS, "w") as fh:
        json.dump(d, fh, indent=1, sort_keys=True)
    return d


def _fp_check(ast, names):
    rec = json.load(open(FINGERPRINTS))
    for f in names:
        now = fingerprint(ast, f)
        if f not in rec:
            raise Unrecognised("no recorded fingerprint for %s" % f)
        if now != rec[f]:
            raise Unrecognised("T22: the body of %s differs from the recorded one (%s)" % (f, _fp_diff(now, rec[f])))


def t23(ast):
    rep = {}
    try:
        rec = json.load(open(FINGERPRINTS))
    except Exception as ex:
        return {"fingerprint." + f: "failed: %r" % ex for f in FP_PROPS}
    for f in sorted(FP_PROPS):
        try:
            now = fingerprint(ast, f)
            rep["fingerprint." + f] = "translated" if now == rec.get(f) else \
                "anomaly: the body of %s differs from the one the model function was written against (%s)" % (f, _fp_diff(now, rec.get(f, "")))
        except Exception as ex:
            rep["fingerprint." + f] = "anomaly: %r" % ex
    return rep


LEAVES_LEAN = [
    """/-- `get_command_by_index` of src/cat.c: `j` is the number of commands in the groups walked so far -/
def get_command_by_index_loop : List GroupD → Nat → Nat → Option CmdD
  | [], _, _ => none                                                     -- return NULL
  | g :: gs, j, index =>
    if index ≥ j + g.cmds.length then get_command_by_index_loop gs (j + g.cmds.length) index   -- j += cmd_group->cmd_num; continue
    else g.cmds[index - j]?                                              -- return &cmd_group->cmd[index - j]

def get_command_by_index (D : Desc) (index : Nat) : Option CmdD := get_command_by_index_loop D.groups 0 index""",
    """/-- `is_command_disable` of src/cat.c -/
def is_command_disable_loop : List GroupD → Nat → Nat → Bool
  | [], _, _ => false
  | g :: gs, j, index =>
    if index ≥ j + g.cmds.length then is_command_disable_loop gs (j + g.cmds.length) index
    else if g.disable != false then true
    else if ((g.cmds[index - j]?).map (·.disable)).getD false != false then true
    else false                                                           -- break; return false

def is_command_disable (D : Desc) (index : Nat) : Bool := is_command_disable_loop D.groups 0 index""",
    """/-- `is_variables_access_possible` of src/cat.c: the loop over `cmd->var[0 .. var_num)` as `List.any` -/
def is_variables_access_possible (cmd : CmdD) (access : Access) : Bool :=
  match cmd.vars with
  | none => false                                                        -- cmd->var == NULL
  | some vs => vs.any (fun var => var.access == .rw || var.access == access)""",
    """/-- `get_left_buffer_space_by_fsm` of src/cat.c (`size_t` subtraction: the model's ghost check `position ≤ size` is in `print_nstring_to_buf`) -/
def get_left_buffer_space_by_fsm (D : Desc) (s : St) (f : Fsm) : Nat :=
  match f with
  | .cmd => D.cmdCap - s.position
  | .uns => D.unsCap - s.uposition""",
    """/-- `move_position_by_fsm` of src/cat.c -/
def move_position_by_fsm (s : St) (offset : Nat) (f : Fsm) : St :=
  match f with
  | .cmd => { s with position := s.position + offset }
  | .uns => { s with uposition := s.uposition + offset }""",
    """/-- `print_nstring_to_buf` of src/cat.c with `get_current_buffer_by_fsm` (the address of the byte under the machine's cursor):
the Bool is "returned 0" -/
def print_nstring_to_buf (D : Desc) (s : St) (f : Fsm) (str : List Byte) : St × Bool :=
  let s : St := s.chkUb (s.pos f ≤ D.capOf f);                            -- ghost: the subtraction below does not wrap
  if str.length ≥ get_left_buffer_space_by_fsm D s f then (s, false)      -- return -1
  else
    let s : St := writeB D s f (s.pos f) str;                             -- memcpy(get_current_buffer_by_fsm(self, fsm), str, len)
    let s : St := move_position_by_fsm s str.length f;
    (setB D s f (s.pos f) 0, true)                                        -- get_current_buffer_by_fsm(self, fsm)[0] = 0; return 0""",
    """/-- `get_new_line_chars` of src/cat.c: the offset into the literal "\\r\\n" -/
def get_new_line_chars (s : St) : Nat := if s.crFlag != false then 0 else 1""",
    """/-- `get_command_by_fsm` of src/cat.c -/
def get_command_by_fsm (s : St) (f : Fsm) : Option Nat :=
  match f with
  | .cmd => s.cmd
  | .uns => s.ucmd""",
]


def t22(ast):
    _fp_check(ast, LEAF_FUNCS)
    return list(LEAVES_LEAN)


def expected_defs():
    """name -> definition text from the committed expected copy (for fallbacks)"""
    txt = open(EXPECTED).read()
    defs = {}
    for m in re.finditer(r"^(?:/--.*?-/\n)?def (\w+).*?(?=^\S|\Z)", txt, flags=re.M | re.S):
        defs[m.group(1)] = m.group(0).rstrip()
    return defs


def generate():
    ast = load_ast()
    rep = {}
    en, ev = enums(ast)
    parts = [HEADER, "/-! T1: enumerators -/"]
    for k, v in en:
        parts.append("def %s : Int := %d" % (k, v))
    for k, v in defines():
        parts.append("def %s : Int := %d" % (k, v))
    rep["T1"] = "translated (%d enumerators, %d defines)" % (len(en), len(DEFINES) + 1)
    exp = expected_defs() if os.path.exists(EXPECTED) else {}

    def add(items, names_rep):
        for txt, (name, status) in zip(items, names_rep.items()):
            if txt is None:
                if name not in exp:
                    raise Unrecognised("no expected definition for " + name)
                parts.append(exp[name])
            else:
                parts.append(txt)
            rep[name] = status
    parts.append("\n/-! T2: expression-bodied helpers (C `int` semantics over `Int`; `b2i` is C's 0/1) -/")
    parts.append("def b2i (b : Bool) : Int := if b then 1 else 0")
    items, r = t2(ast, ev)
    add(items, r)
    parts.append("\n/-! T3: return-code switches -/")
    items, r = t3(ast, ev)
    add(items, r)
    parts.append("\n/-! T5: public functions bracketed by lock/unlock around a single body call -/")
    locked, unlocked, r5 = t5(ast)
    parts.append("def locked_api : List String := [%s]" % ", ".join('"%s"' % x for x in locked))
    parts.append("def unlocked_api : List String := [%s]" % ", ".join('"%s"' % x for x in unlocked))
    rep["T5"] = "translated" if not r5 else "anomaly: %s" % r5
    rep.update(t23(ast))
    parts.append("\n/-! T21: width in bits of the unsigned counters the model keeps as natural numbers -/")
    d21, r21 = t21(ast)
    parts += d21
    rep.update(r21)
    parts.append("\nend Cat.Gen\n")
    return "\n".join(parts), rep


def regenerate():
    """write Gen/Source.lean if its content changed; returns a report dict"""
    try:
        txt, rep = generate()
    except Exception as ex:     # clang missing, AST shape entirely different …
        return {"status": "failed", "error": repr(ex)[:300], "note": "Gen/Source.lean left as committed (expected copy)"}
    with lib.Lock("gen"):
        old = open(GEN).read() if os.path.exists(GEN) else ""
        if old != txt:
            with open(GEN, "w") as f:
                f.write(txt)
    exp = open(EXPECTED).read() if os.path.exists(EXPECTED) else ""
    rep.update(regenerate_dispatch())
    rep.update(regenerate_modules())
    fall = {k: v for k, v in rep.items() if not v.startswith("translated")}
    return {"status": "ok", "changed_vs_expected": txt != exp, "fallbacks": fall, "items": len(rep),
            "sha": hashlib.sha256(txt.encode()).hexdigest()[:12], "report": rep}


if __name__ == "__main__":
    if len(sys.argv) > 1 and sys.argv[1] == "--fingerprints":
        print("recorded %d fingerprints in %s" % (len(write_fingerprints()), FINGERPRINTS))
    elif len(sys.argv) > 1 and sys.argv[1] == "--print":
        sys.stdout.write(generate()[0])
    else:
        print(json.dumps(regenerate(), indent=1))
