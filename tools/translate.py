"""Translator stub (replaced below by the real one): regenerate lean/CatVerif/Gen/Source.lean."""
def regenerate():
    return {"status": "not-run"}
