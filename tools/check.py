#!/usr/bin/env python3
"""check.py <Cxx> <quick|thorough>   |   check.py <Cxx> --replay <path>

Decides one property on /repo's current working tree (DESIGN.md section 9):
 1. regenerate Gen/Source.lean from the source, `lake build`, audit (sorry/axioms);
 2. build the harness from the working tree;
 3. corpus + generated scenarios on implementation and model; compare the property's
    observation; run the property's oracle on the implementation traces;
 4. outcome -> exit code, VIOLATION / KNOWN-FINDING lines, evidence/<id>.json.
"""
import json, os, re, sys, time, random, subprocess, glob
sys.path.insert(0, os.path.dirname(os.path.abspath(__file__)))
import lib, gen, oracles, props, families
from lib import VERIF, LEAN

TRUSTED = [
    "Lean 4.33 kernel (thorough tier: re-checked by leanchecker); axioms allowed: propext, Classical.choice, Quot.sound",
    "statements in lean/CatVerif/Properties/*.lean and lean/CatVerif/Spec/*.lean say what properties.jsonl says (DESIGN.md 2.2, 2.3)",
    "tools/translate.py (clang AST dump -> lean/CatVerif/Gen/Source.lean) for enumerators, expression-bodied helpers, return-code switches, lock brackets",
    "correspondence check (harness/replay.c, lean/Driver/Main.lean, tools/gen.py families, tools/props.py observations): sampling, not proof, that lean/CatVerif/Model/*.lean is /repo/src/cat.c",
    "gcc, ASan/UBSan, libc (snprintf, strncpy, memset, memcpy, strlen, strcpy) as modelled; x86-64 little-endian, 8-bit signed char",
]


def log(*a):
    print(*a, file=sys.stderr, flush=True)


def known_findings():
    p = os.path.join(VERIF, "known_findings.json")
    if not os.path.exists(p):
        return {"fixed": [], "known": []}
    return json.load(open(p))


# ----------------------------------------------------------------------------- lean side

def property_theorems(pid):
    out = []
    # Properties/Cxx.lean: the property's theorems; Properties/Tie/Cxx.lean: its tie to the source (generated definitions = model's)
    for p in (os.path.join(LEAN, "CatVerif/Properties/%s.lean" % pid), os.path.join(LEAN, "CatVerif/Properties/Tie/%s.lean" % pid)):
        if not os.path.exists(p):
            continue
        src = open(p).read()
        # strip comments
        src = re.sub(r"/-.*?-/", "", src, flags=re.S)
        src = re.sub(r"--.*", "", src)
        out += re.findall(r"^theorem\s+([A-Za-z0-9_.']+)", src, flags=re.M)
    return out


def property_modules(pid):
    mods = ["CatVerif.Properties.%s" % pid]
    if os.path.exists(os.path.join(LEAN, "CatVerif/Properties/Tie/%s.lean" % pid)):
        mods.append("CatVerif.Properties.Tie.%s" % pid)
    return mods


FORBIDDEN = re.compile(r"\b(sorry|admit|native_decide|bv_decide|implemented_by|unsafe)\b|^\s*axiom\s|maxHeartbeats\s+0")


def grep_forbidden():
    hits = []
    for path in glob.glob(os.path.join(LEAN, "CatVerif/**/*.lean"), recursive=True):
        src = open(path).read()
        src = re.sub(r"/-.*?-/", lambda m: "\n" * m.group(0).count("\n"), src, flags=re.S)
        for n, line in enumerate(src.splitlines(), 1):
            line = re.sub(r"--.*", "", line)
            line = re.sub(r'"[^"]*"', '""', line)
            if FORBIDDEN.search(line):
                hits.append("%s:%d: %s" % (os.path.relpath(path, VERIF), n, line.strip()))
    return hits


ALLOWED_AXIOMS = {"propext", "Classical.choice", "Quot.sound"}


def audit_axioms(pid, thms):
    """returns (ok_theorems, problems)"""
    if not thms:
        return [], []
    os.makedirs(lib.CACHE, exist_ok=True)
    f = os.path.join(lib.CACHE, "audit_%s_%d.lean" % (pid, os.getpid()))
    with open(f, "w") as fh:
        fh.write("".join("import %s\n" % m for m in property_modules(pid)) + "open Cat\n")
        for t in thms:
            fh.write("#print axioms %s\n" % t)
    p = lib.sh(["lake", "env", "lean", f], cwd=LEAN)
    os.remove(f)
    out = p.stdout + p.stderr
    ok, problems = [], []
    for t in thms:
        m = re.search(r"'(?:Cat\.)?%s' (does not depend on any axioms|depends on axioms: \[([^\]]*)\])" % re.escape(t), out)
        if not m:
            problems.append("%s: no axiom report (%s)" % (t, out.strip()[-300:]))
            continue
        axs = set(a.strip() for a in (m.group(2) or "").split(",") if a.strip())
        bad = axs - ALLOWED_AXIOMS
        if bad:
            problems.append("%s depends on %s" % (t, sorted(bad)))
        else:
            ok.append(t)
    return ok, problems


ITEM_PROPS = {
    "to_upper": {"C02"}, "is_valid_cmd_name_char": {"C02"},
    "is_valid_dec_char": {"C04"}, "is_valid_hex_char": {"C04", "C05"}, "convert_hex_char_to_value": {"C04", "C05"},
    "get_atcmd_buf_size": {"C03", "C06"}, "get_unsolicited_buf_size": {"C03", "C06"}, "get_unsolicited_buf_offset": {"C03", "C06"},
    "is_busy": {"C18"}, "is_hold": {"C18", "C14"}, "is_unsolicited_fsm_busy": {"C15", "C18"},
    "is_unsolicited_buffer_full": {"C13"}, "is_unsolicited_buffer_empty": {"C13", "C15"}, "service_merge": {"C15"},
    "process_write_loop": {"C10", "C14"}, "process_run_loop": {"C10", "C14"}, "process_read_loop": {"C10", "C14"},
    "process_test_loop": {"C10", "C14"}, "T5": {"C16", "C17"},
    "T6": {"C11", "C12", "C14"},
    "T4": {"C01", "C02", "C06", "C09", "C10", "C11", "C12", "C13", "C14", "C15", "C18", "C19", "C20"},
}


def translator_item_props(item):
    if item.split(".")[0] in ("steps", "setters", "readers", "layout", "fingerprint"):
        # Gen/{Steps,Setters,Readers}/<Module>.lean (translator items T7-T20): the properties whose theorems are built on that group of functions
        import translate
        return translate.step_module_props().get(item, set())
    return ITEM_PROPS.get(item, set("C%02d" % k for k in range(1, 21)))


def lean_side(pid, tier):
    """build + audit. returns dict(ok, build_ok, thms, discharged, problems, driver_ok)"""
    res = {"thms": property_theorems(pid), "discharged": [], "problems": [], "build_ok": False, "driver_ok": False}
    import translate
    tr = translate.regenerate()
    full = tr.pop("report", {}) if isinstance(tr, dict) else {}
    res["translator"] = tr
    # the items this property's theorems rest on (module groups, counters, fingerprints, named helpers), with their status on this run
    res["translator"]["items_for_this_property"] = {k: v[:160] for k, v in sorted(full.items())
                                                    if (k in ITEM_PROPS or "." in k) and pid in translator_item_props(k)}
    # an item the translator no longer recognises is a broken tie for the properties built on it
    if tr.get("status") != "ok":
        res["problems"].append("translator failed: %s" % tr.get("error"))
    else:
        for item, why in (tr.get("fallbacks") or {}).items():
            if pid in translator_item_props(item):
                res["problems"].append("translator: source item %s no longer has the recognised shape (%s); the expected text was used instead" % (item, why[:400]))
    ok, out = lib.lake_build(("CatVerif", "catdrv"))
    res["build_ok"] = ok
    if not ok:
        # which modules failed?
        failed = re.findall(r"^- (\S+)", out, flags=re.M)
        res["problems"].append("lake build failed: " + ", ".join(failed) if failed else out[-600:])
        res["failed_modules"] = failed
        # is the driver still usable? try building it alone
        ok2, _ = lib.lake_build(("catdrv",))
        res["driver_ok"] = ok2
        # does this property's own module still build?
        ok3, out3 = lib.lake_build(tuple(property_modules(pid))) if res["thms"] else (True, "")
        res["prop_build_ok"] = ok3
        if ok3:
            # other properties' proofs are broken, not this one's (what the translator reported for this property stays)
            res["problems"] = [p for p in res["problems"] if not p.startswith("lake build failed")]
        else:
            mine = re.findall(r"^- (\S+)", out3, flags=re.M)
            res["problems"] = [p for p in res["problems"] if not p.startswith("lake build failed")] + \
                ["lake build failed: " + ", ".join(mine or failed)]
    else:
        res["driver_ok"] = True
        res["prop_build_ok"] = True
    if res.get("prop_build_ok"):
        hits = grep_forbidden()
        if hits:
            res["problems"].append("forbidden constructs: " + "; ".join(hits[:5]))
        okt, probs = audit_axioms(pid, res["thms"])
        res["discharged"] = okt
        res["problems"] += probs
        if tier == "thorough" and res["thms"]:
            for mod in property_modules(pid):
                p = lib.sh(["lake", "env", "leanchecker", mod], cwd=LEAN)
                res["leanchecker"] = max(res.get("leanchecker", 0), p.returncode)
                if p.returncode != 0:
                    res["problems"].append("leanchecker rejected %s: %s" % (mod, (p.stdout + p.stderr)[-300:]))
    res["ok"] = res.get("prop_build_ok", False) and not res["problems"]
    return res


# ----------------------------------------------------------------------------- scenarios

def load_corpus(pid=None):
    """corpus/*.scn: minimised past failures, run first for every property; findings/<pid>-*.scn: the
    inputs of the recorded (not repaired) findings of that property (known_findings.json)."""
    scns = []
    for path in sorted(glob.glob(os.path.join(VERIF, "corpus", "*.scn"))):
        for s in lib.parse_scn_text(open(path).read()):
            s.sid = "corpus:" + s.sid
            scns.append(s)
    if pid:
        for path in sorted(glob.glob(os.path.join(VERIF, "findings", pid + "-*.scn"))):
            for s in lib.parse_scn_text(open(path).read()):
                s.sid = "finding:" + s.sid
                s.no_minimise = True
                scns.append(s)
    return scns


def minimise(scn, pred, budget=40):
    """delta-debug the operation list while pred(scenario) holds"""
    ops = list(scn.ops)
    n = 2
    runs = 0
    import copy
    def mk(o):
        s = copy.copy(scn)
        s.ops = o
        return s
    while len(ops) >= 2 and runs < budget:
        chunk = max(1, len(ops) // n)
        reduced = False
        for i in range(0, len(ops), chunk):
            cand = ops[:i] + ops[i + chunk:]
            runs += 1
            if cand and pred(mk(cand)):
                ops = cand
                n = max(n - 1, 2)
                reduced = True
                break
            if runs >= budget:
                break
        if not reduced:
            if chunk == 1:
                break
            n = min(len(ops), n * 2)
    return mk(ops)


def write_replay(pid, scn, notes, n):
    d = os.environ.get("VERIF_REPLAY_DIR") or os.path.join(VERIF, "evidence", "replays")
    os.makedirs(d, exist_ok=True)
    path = os.path.join(d, "%s-%d.scn" % (pid, n))
    with open(path, "w") as f:
        f.write(scn.text())
        for x in notes:
            f.write("note " + x.replace("\n", " ")[:1500] + "\n")
    return path


def evaluate(pid, scns, bins, driver_ok):
    """run scenarios; returns (violations, disagreements, stats)
       violations: [(scn, [msgs])] from the oracle on the implementation
       disagreements: [(scn, detail)] observation differs between implementation and model"""
    ti = lib.run_impl(scns, bins)
    tm = lib.run_model(scns) if driver_ok else {}
    obs, orc = props.OBS[pid], props.ORACLE[pid]
    viol, dis = [], []
    stats = {"oracle_applicable": 0, "lines": 0, "aborts": 0}
    for s in scns:
        t = ti.get(s.sid)
        if t is None:
            continue
        stats["lines"] += len(t.lines)
        if t.abort:
            stats["aborts"] += 1
        ai = oracles.An(s, t)
        try:
            r = orc(ai)
        except Exception as e:   # an oracle crash must not masquerade as a verdict
            log("oracle error on %s: %r" % (s.sid, e))
            r = None
        if r is not None:
            stats["oracle_applicable"] += 1
            if r:
                viol.append((s, r))
        if driver_ok and not s.sid.startswith("finding:"):
            # (a recorded finding lies outside the model's domain: both sides complain, traces behind the fault are not compared)
            m = tm.get(s.sid)
            if m is None or m.errs:
                dis.append((s, "model produced no trace: %s" % (m.errs if m else "")))
                continue
            am = oracles.An(s, m)
            try:
                oi, om = obs(ai), obs(am)
            except Exception as e:
                log("observation error on %s: %r" % (s.sid, e))
                continue
            if oi != om:
                dis.append((s, first_diff(oi, om)))
            elif pid == "C15":
                try:
                    extra = props.cross_C15(ai, am)
                except Exception as e:
                    log("cross_C15 error on %s: %r" % (s.sid, e))
                    extra = []
                if extra:
                    stats["bound_checked"] = stats.get("bound_checked", 0)
                    viol.append((s, extra))
    return viol, dis, stats, ti, tm


def first_diff(a, b):
    if isinstance(a, (list, tuple)) and isinstance(b, (list, tuple)):
        for k, (x, y) in enumerate(zip(a, b)):
            if x != y:
                if isinstance(x, (list, tuple)) and isinstance(y, (list, tuple)) and x and not isinstance(x[0], (int, str, bytes)):
                    return "[%d] %s" % (k, first_diff(x, y))
                return "item %d: implementation %r / model %r" % (k, x, y)
        return "length: implementation %d / model %d (extra: %r)" % (len(a), len(b), (a[len(b):] or b[len(a):])[:2])
    if isinstance(a, str) and isinstance(b, str):
        for k, (x, y) in enumerate(zip(a, b)):
            if x != y:
                return "position %d: implementation ...%s / model ...%s" % (k, a[max(0, k - 20):k + 5], b[max(0, k - 20):k + 5])
        return "length: implementation %d / model %d" % (len(a), len(b))
    return "implementation %r / model %r" % (a, b)


def matches_known(pid, scn, msgs, kf):
    for k in kf.get("known", []):
        if k.get("property") != pid:
            continue
        pat = k.get("match")
        if pat and any(re.search(pat, m) for m in msgs) and (not k.get("scenario") or k["scenario"] in scn.sid):
            return k
    return None


def sample_of(scn):
    txt = scn.text().splitlines()
    ops = [l for l in txt if l.split()[0] in ("in", "svc", "drain", "trig", "trigr", "trigt", "hexit", "busy", "hold", "full", "buffered", "flag", "poke", "hq", "vq", "refval")]
    return {"id": scn.sid, "cap": scn.cap, "buf": [scn.buf, scn.uns], "commands": [c.name.decode("latin1") for c in scn.cmds][:8], "ops": ops[:6], "n_ops": len(ops)}


def thread_runs(seed, tier):
    """TSan runs of harness/threads.c against the working tree: 1..8 producers, ring capacities
    1, 2, 8, real pthread mutex; plus one control run without mutex that must make TSan fire."""
    bins = lib.build_threads()
    rng = random.Random(seed * 31 + 5)
    cfg = []
    nseeds = 2 if tier == "quick" else 12
    per = 1500 if tier == "quick" else 6000
    for cap in (1, 2, 8):
        for np_ in ((1, 3, 8) if tier == "quick" else (1, 2, 3, 4, 5, 6, 7, 8)):
            for _ in range(nseeds):
                cfg.append((cap, np_, per, rng.randrange(1, 1 << 30), 1))
    res = lib.run_threads(bins, cfg)
    control = lib.run_threads(bins, [(2, 4, 3000, seed, 0)])[0]
    fails = [r for r in res if r["races"] or r["mismatch"] or r["rc"] not in (0,)]
    tot = lambda key: sum(int(re.search(key + r"=(\d+)", r["line"]).group(1)) for r in res if re.search(key + r"=(\d+)", r["line"]))
    return {"runs": len(res), "producers": sorted(set(c[1] for c in cfg)), "capacities": [1, 2, 8],
            "triggers_accepted": tot("accepted"), "triggers_refused_full": tot("full"), "events_delivered": tot("delivered"),
            "holds_released_by_other_thread": tot("holds"), "service_calls": tot("service_calls"),
            "tsan_reports": sum(r["races"] for r in res), "count_mismatches": sum(1 for r in res if r["mismatch"]),
            "detector_control_without_mutex_reports": control["races"],
            "sample": [r["line"] for r in res[:3]], "failures": fails}


def main():
    t0 = time.time()
    pid = sys.argv[1]
    replay = None
    tier = "quick"
    if len(sys.argv) > 2 and sys.argv[2] == "--replay":
        replay = sys.argv[3]
    elif len(sys.argv) > 2:
        tier = sys.argv[2]
    tier = os.environ.get("VERIF_TIER", tier) if tier not in ("quick", "thorough") else tier
    seed = int(os.environ.get("VERIF_SEED", "1"))
    kf = known_findings()

    if replay and pid == "C17" and replay.endswith(".txt"):
        # a thread-run replay: re-run the recorded configuration (several times: schedules vary)
        m = re.search(r"threads(\d+) (\d+) (\d+) (\d+) (\d+)", open(replay).read())
        bins = lib.build_threads()
        cfg = (int(m.group(1)), int(m.group(2)), int(m.group(3)), int(m.group(4)), int(m.group(5)))
        res = lib.run_threads(bins, [cfg] * 8)
        bad = [r for r in res if r["races"] or r["mismatch"]]
        for r in res[:2]:
            print(r["line"])
        if bad:
            print(bad[0]["stderr"][-1500:])
            print("VIOLATION property=C17 replay=%s" % replay)
            sys.exit(1)
        print("C17 thread replay: 8 runs, no data race report, counts match -> ok")
        sys.exit(0)

    ls = lean_side(pid, tier)
    try:
        bins = lib.build_harness()
    except lib.BuildError as e:
        print("ERROR: harness does not build against the working tree:\n%s" % e)
        sys.exit(2)

    if replay:
        scns = lib.parse_scn_text(open(replay).read())
        budget = []
    else:
        scns = load_corpus(pid)
        for fam, nq, nt in families.PLAN[pid]:
            n = nq * int(os.environ.get("VERIF_QUICK_SCALE", "3")) if tier == "quick" else nt
            scns += families.generate(seed, fam, n, prefix="%s-%s" % (pid, fam))
    # unique ids
    seen = set()
    for s in scns:
        while s.sid in seen:
            s.sid += "'"
        seen.add(s.sid)

    # scenarios with working buffers of tens of kilobytes (family `wide`, only produced by the failing-input search) are judged by the
    # oracle on the implementation alone: the model's list-based buffers take minutes to follow them
    huge = bool(replay) and any(s.buf > 8192 for s in scns)
    viol, dis, stats, ti, tm = evaluate(pid, scns, bins, ls["driver_ok"] and not huge)

    # metamorphic oracles (twin runs on the implementation)
    meta = []
    if not replay and pid in families.META:
        meta = families.META[pid](seed, tier, bins)
        for s, msgs in meta:
            viol.append((s, msgs))

    out_lines = []
    nrep = 0
    exit_code = 0
    reported = []
    # C17: the part a model cannot exhibit — real threads, a real mutex, ThreadSanitizer
    thread_ev = None
    if pid == "C17" and not replay:
        thread_ev = thread_runs(seed, tier)
        if thread_ev["failures"]:
            f = thread_ev["failures"][0]
            nrep += 1
            path = os.path.join(os.environ.get("VERIF_REPLAY_DIR") or os.path.join(VERIF, "evidence", "replays"), "C17-threads-%d.txt" % nrep)
            os.makedirs(os.path.dirname(path), exist_ok=True)
            open(path, "w").write("C17 thread run failed: %d data race report(s), count mismatch=%s\n"
                                  "rebuild and rerun: gcc -O1 -g -fsanitize=thread -DCAT_UNSOLICITED_CMD_BUFFER_SIZE=<cap> -I/repo/src /verif/harness/threads.c /repo/src/cat.c -lpthread -o threads<cap>; TSAN_OPTIONS=exitcode=66 ./%s\n%s\n%s\n"
                                  % (f["races"], f["mismatch"], f["cmd"], f["line"], f["stderr"]))
            out_lines.append("VIOLATION property=C17 replay=%s" % path)
            exit_code = 1
    # 1. oracle violations
    fresh = []
    for s, msgs in viol:
        k = matches_known(pid, s, msgs, kf)
        if k:
            out_lines.append("KNOWN-FINDING: property=%s %s" % (pid, k.get("what", msgs[0])))
        else:
            fresh.append((s, msgs))
    if fresh:
        s, msgs = fresh[0]
        orc = props.ORACLE[pid]

        def pred(sc):
            t = lib.run_impl([sc], bins).get(sc.sid)
            if t is None:
                return False
            r = orc(oracles.An(sc, t))
            return bool(r)
        try:
            small = minimise(s, pred, 30 if tier == "quick" else 120) if not getattr(s, "no_minimise", False) else s
        except Exception:
            small = s
        nrep += 1
        path = write_replay(pid, small, ["property %s violated on the implementation" % pid] + msgs[:5] + ["%d scenarios failed the oracle in this run" % len(fresh)], nrep)
        out_lines.append("VIOLATION property=%s replay=%s" % (pid, path))
        reported.append(msgs[0])
        exit_code = 1
    # 2. broken proof / audit / correspondence without a failing input
    broken = []
    if not ls["ok"]:
        broken += ["lean: " + p for p in ls["problems"]] or ["lean: property module does not build"]
    if dis:
        broken.append("correspondence: observation of %s differs between implementation and model on %d scenario(s); first: %s: %s" % (pid, len(dis), dis[0][0].sid, dis[0][1]))
    if broken and not fresh:
        # extended search: mutations of the diverging scenarios through the oracle
        found = None
        if dis and not replay:
            extra = []
            rng = random.Random(seed * 7919 + 13)
            for s, _ in dis[:20]:
                extra += families.mutations(rng, s, 6 if tier == "quick" else 30)
            if extra:
                v2, _, _, _, _ = evaluate(pid, extra, bins, False)
                v2 = [(s, m) for (s, m) in v2 if not matches_known(pid, s, m, kf)]
                if v2:
                    found = v2[0]
        if not found and not replay and pid in families.META:
            big = families.META[pid](seed + 1000, tier, bins, n=400 if tier == "quick" else 3000)
            big = [(sc, m) for (sc, m) in big if not matches_known(pid, sc, m, kf)]
            if big:
                found = big[0]
        if not found and not replay and any("layout." in b for b in broken):
            # a counter the model keeps unbounded is no longer a size_t: sizes beyond 255 / 65535, on the implementation alone
            wide = families.generate(seed, "wide", 8 if tier == "quick" else 30, prefix="%s-wide" % pid)
            v3, _, _, _, _ = evaluate(pid, wide, bins, False)
            v3 = [(sc, m) for (sc, m) in v3 if not matches_known(pid, sc, m, kf)]
            if v3:
                found = v3[0]
                found[0].no_minimise = True
        nrep += 1
        if found:
            path = write_replay(pid, found[0], ["property %s violated on the implementation (found by the extended search)" % pid] + found[1][:5] + broken, nrep)
            out_lines.append("VIOLATION property=%s replay=%s" % (pid, path))
        else:
            base = dis[0][0] if dis else (scns[0] if scns else None)
            notes = ["no failing input found for %s; the property is no longer shown to hold because:" % pid] + ["broken " + b for b in broken]
            if base is not None:
                path = write_replay(pid, base, notes, nrep)
            else:
                path = os.path.join(os.environ.get("VERIF_REPLAY_DIR") or os.path.join(VERIF, "evidence", "replays"), "%s-%d.scn" % (pid, nrep))
                os.makedirs(os.path.dirname(path), exist_ok=True)
                open(path, "w").write("\n".join("note " + n for n in notes) + "\n")
            out_lines.append("VIOLATION property=%s replay=%s no-failing-input-found" % (pid, path))
        exit_code = 1

    wall = time.time() - t0
    distinct = len(set(s.text().split("init\n", 1)[-1] for s in scns if len(s.ops) > 1))
    ev = {
        "property_id": pid, "tier": tier, "seed": seed, "level": "proof",
        "coverage": {
            "obligations": max(1, len(ls["thms"])), "discharged": len(ls["discharged"]) if ls["thms"] else 0,
            "theorems": ls["thms"], "theorems_checked": ls["discharged"],
            "checker_cmd": "cd lean && lake build CatVerif catdrv && lake env lean <#print axioms of every theorem in CatVerif/Properties/%s.lean and CatVerif/Properties/Tie/%s.lean>%s" % (pid, pid, " && lake env leanchecker CatVerif.Properties.%s (and .Tie.%s)" % (pid, pid) if tier == "thorough" else ""),
            "trusted_base": TRUSTED,
            "translator": ls.get("translator"),
            "evaluations": len(scns), "distinct_nontrivial": distinct,
            "rule": "corpus replays first, then seeded generator families %r; a scenario is non-trivial when it performs at least two operations after init, distinct by operation text" % ([f for f, _, _ in families.PLAN.get(pid, [])],),
            "traces_validated_against_impl": len(scns) - len(dis) if ls["driver_ok"] else 0,
            "disagreements_checked": len(dis),
            "oracle_applicable": stats["oracle_applicable"], "trace_lines": stats["lines"], "sanitizer_aborts": stats["aborts"],
            "metamorphic_cases": len(meta) if meta else families.META_COUNT.get(pid, 0),
            "samples": [sample_of(s) for s in scns[:2] + scns[-2:]],
            "lean_problems": ls["problems"],
            "recorded_findings_reproduced": len(viol) - len(fresh),
            "liveness_bound_cross_check": (props.CROSS_C15 if pid == "C15" else None),
        },
        "assumptions": families.ASSUMPTIONS.get(pid, []) + ["domain restrictions of DESIGN.md 2.3 (supported descriptors, handler contract, no HOLD from event handlers, flags change between lines)"],
        "wall_s": round(wall, 2),
        "violations": 1 if exit_code else 0,
    }
    if thread_ev is not None:
        ev["coverage"]["thread_runs"] = {k: v for k, v in thread_ev.items() if k != "failures"}
        ev["coverage"]["thread_failures"] = len(thread_ev["failures"])
    # evidence describes /repo's working tree only: runs against a scratch copy (CAT_REPO / VERIF_LEAN set) never write it
    scratch = os.path.realpath(lib.REPO) != "/repo" or os.path.realpath(lib.LEAN) != os.path.realpath(os.path.join(VERIF, "lean"))
    if not replay and not scratch and not os.environ.get("VERIF_NO_EVIDENCE"):
        lib.write_json(os.path.join(VERIF, "evidence", "%s.json" % pid), ev)
    for l in out_lines:
        print(l)
    print("%s %s: %d scenarios, %d theorems (%d checked), %d oracle failures%s, %d correspondence disagreements, %.1fs -> %s" % (
        pid, tier, len(scns), len(ls["thms"]), len(ls["discharged"]), len(fresh),
        (" (+%d recorded findings reproduced)" % (len(viol) - len(fresh))) if len(viol) != len(fresh) else "", len(dis), wall, "FAIL" if exit_code else "ok"))
    sys.exit(exit_code)


if __name__ == "__main__":
    main()
