"""Seeded scenario generators (one PRNG). Families are functions rng -> Scenario."""
import random
from lib import Scenario, Cmd, Var, hx

ALPHA = b"ABCDEFGHIJKLMNOPQRSTUVWXYZ0123456789+#$@_%&"
CODES = [-1, 0, 1, 2, 3, 4, 5, 6, 7]
TERMINAL = [-1, 0, 3]

VT_INT, VT_UINT, VT_HEX, VT_BUFHEX, VT_STR = 0, 1, 2, 3, 4
RW, RO, WO = 0, 1, 2


def rand_name(rng, pool, maxlen=6):
    """A name over the legal alphabet, often a prefix/extension/case variant of an earlier one."""
    r = rng.random()
    if pool and r < 0.35:
        base = rng.choice(pool)
        n = base + bytes(rng.choice(ALPHA) for _ in range(rng.randint(1, 2)))
    elif pool and r < 0.5:
        base = rng.choice(pool)
        n = base[:max(1, rng.randint(1, len(base)))]
    elif pool and r < 0.6:
        n = rng.choice(pool)
    else:
        n = bytes(rng.choice(ALPHA) for _ in range(rng.randint(1, maxlen)))
        if rng.random() < 0.6:
            n = b"+" + n
    if rng.random() < 0.3:
        n = bytes(c + 32 if 65 <= c <= 90 and rng.random() < 0.5 else c for c in n)
    return n


def rand_case(rng, b):
    return bytes((c + 32 if 65 <= c <= 90 and rng.random() < 0.4 else c - 32 if 97 <= c <= 122 and rng.random() < 0.4 else c) for c in b)


def rand_var(rng, sc, slots_for_size):
    t = rng.choice([VT_INT, VT_UINT, VT_HEX, VT_BUFHEX, VT_STR])
    if t in (VT_INT, VT_UINT, VT_HEX):
        size = rng.choice([1, 2, 4, 1, 2, 4, 1, 2, 4, 3, 8])
    else:
        size = rng.choice([1, 2, 3, 4, 5, 8, 16])
    ln = size + (rng.randint(1, 3) if rng.random() < 0.3 else 0)
    if slots_for_size and rng.random() < 0.15:
        cands = [i for i, (l, _) in enumerate(sc.slots) if l >= size]
        slot = rng.choice(cands) if cands else sc.slot(ln, bytes(rng.randrange(256) for _ in range(ln)))
    else:
        init = bytes(rng.randrange(256) for _ in range(ln))
        if t == VT_STR and rng.random() < 0.8:
            k = rng.randint(0, max(0, size - 1))
            if rng.random() < 0.3:
                body = bytes(rng.choice([x for x in range(1, 256) if x != 13]) for _ in range(k))
            else:
                body = bytes(rng.choice(b'ab"\\\n,xyzQ1 \t') for _ in range(k))
            init = (body + b"\0" * ln)[:ln]
        slot = sc.slot(ln, init)
    acc = rng.choice([RW, RW, RW, RO, WO])
    name = None if rng.random() < 0.3 else bytes(rng.choice(b"abcxyzXY_") for _ in range(rng.randint(1, 4)))
    cb = rng.choice([0, 0, 0, 1, 2, 3])
    return Var(t, slot, size, acc, name, cb)


def rand_desc(rng, sid, cap=None, max_cmds=8, mutex=None, small_buf=None):
    cap = cap if cap is not None else rng.choice([1, 2, 3, 8])
    ncmds = rng.randint(1, max_cmds)
    ngroups = rng.randint(1, min(3, ncmds))
    nextra = rng.choice([0, 0, 1, 2])
    separate = rng.random() < 0.35
    if small_buf is None:
        small_buf = rng.random() < 0.3
    need = max(6, (ncmds + 3) // 4)
    ccap = rng.randint(need, need + 10) if small_buf else rng.randint(24, 96)
    if separate:
        buf, uns = ccap, rng.choice([0, 1, 5, 8, 16, 32, 64]) if rng.random() < 0.5 else rng.randint(6, 64)
    else:
        buf, uns = 2 * ccap + rng.randint(0, 1), -1
    sc = Scenario(sid, cap=cap, buf=buf, uns=uns, mutex=(rng.random() < 0.25) if mutex is None else mutex)
    for g in range(ngroups):
        sc.group(None if rng.random() < 0.5 else b"g%d" % g, rng.random() < 0.12)
    # distribute commands over groups, in order
    cuts = sorted(rng.sample(range(1, ncmds), ngroups - 1)) if ngroups > 1 else []
    bounds = [0] + cuts + [ncmds]
    pool = []
    for g in range(ngroups):
        for _ in range(bounds[g + 1] - bounds[g]):
            sc.cmd(rand_cmd(rng, sc, pool, g))
    for _ in range(nextra):
        sc.cmd(rand_cmd(rng, sc, pool, -1))
    return sc


def rand_cmd(rng, sc, pool, group):
    name = rand_name(rng, pool)
    pool.append(name.upper())
    implicit = rng.random() < 0.08
    h = "".join(k for k in "wrxt" if rng.random() < 0.5)
    if implicit:
        h = "".join(k for k in h if k == "w")
        if rng.random() < 0.7 and "w" not in h:
            h = "w"
    r = rng.random()
    if r < 0.25:
        vars_ = None
    elif r < 0.3:
        vars_ = []
    else:
        vars_ = [rand_var(rng, sc, True) for _ in range(rng.randint(1, 4))]
    desc = None if rng.random() < 0.6 else bytes(rng.choice(b"abc def,XYZ%%d") for _ in range(rng.randint(0, 12)))
    return Cmd(name, desc, h, vars_, need_all=rng.random() < 0.3, only_test=rng.random() < 0.08,
               disable=rng.random() < 0.1, implicit=implicit, group=group)


# ---------------------------------------------------------------- argument texts

def int_text(rng, bits=None, signed=True):
    r = rng.random()
    bits = bits or rng.choice([8, 16, 32])
    bounds = [0, 1, 2 ** (bits - 1) - 1, 2 ** (bits - 1), 2 ** bits - 1, 2 ** bits, 2 ** 31, 2 ** 32, 2 ** 63 - 1, 2 ** 63, 2 ** 64 - 1, 2 ** 64, 2 ** 64 + 5, 10 ** 25]
    if r < 0.5:
        v = rng.choice(bounds) + rng.randint(-2, 2)
    elif r < 0.8:
        v = rng.randint(0, 2 ** bits)
    else:
        v = rng.randint(0, 2 ** 70)
    v = abs(v)
    s = str(v)
    if rng.random() < 0.2:
        s = "0" * rng.randint(1, 4) + s
    if signed:
        s = rng.choice(["", "", "-", "-", "+"]) + s
    if rng.random() < 0.06:
        s = rng.choice(["-", "+", "", "--1", "+-1", "-+", "1-", " 1", "1 ", "0x", "0X", "-0", "+0", "00", "-", "+"])
    return s.encode()


def hex_text(rng, bits=None):
    bits = bits or rng.choice([8, 16, 32])
    r = rng.random()
    if r < 0.5:
        v = abs(rng.choice([0, 2 ** bits - 1, 2 ** bits, 2 ** 32, 2 ** 60, 2 ** 64 - 1, 2 ** 64, 2 ** 64 + 5]) + rng.randint(-1, 1))
    else:
        v = rng.randint(0, 2 ** bits)
    s = "%X" % v
    if rng.random() < 0.3:
        s = s.lower()
    if rng.random() < 0.2:
        s = "0" * rng.randint(1, 3) + s
    if rng.random() < 0.06:
        return rng.choice([b"0x", b"0X", b"x1", b"0", b"1x2", b"0xG", b"0x-1", b"", b"0x 1"])
    return (rng.choice(["0x", "0x", "0X"]) + s).encode()


def bufhex_text(rng, size):
    n = rng.choice([size - 1, size, size, size + 1, rng.randint(0, size + 2)])
    n = max(0, n)
    s = "".join(rng.choice("0123456789abcdefABCDEF") for _ in range(2 * n))
    if rng.random() < 0.1:
        s = s[:-1] if s else "A"
    return s.encode()


def str_text(rng, size):
    n = max(0, rng.choice([size - 2, size - 1, size - 1, size, size + 1, rng.randint(0, size + 1)]))
    body = b""
    for _ in range(n):
        r = rng.random()
        if r < 0.15:
            body += rng.choice([b"\\\\", b'\\"', b"\\n"])
        else:
            body += bytes([rng.choice(b"abcXYZ019 ,;:-_") if rng.random() < 0.9 else rng.choice([1, 127, 128, 255, 39, 9])])
    return b'"' + body + b'"'


def mutate(rng, b):
    if not b:
        return rng.choice([b"", b"x", b","])
    r = rng.random()
    i = rng.randrange(len(b))
    if r < 0.3:
        return b[:i] + bytes([rng.choice(b"gx-+ ,\"\\\0\x80")]) + b[i:]
    if r < 0.6:
        return b[:i] + b[i + 1:]
    if r < 0.8:
        return b[:i] + bytes([rng.randrange(256) or 1]) + b[i + 1:]
    return b + rng.choice([b",", b" ", b"\0z", b"0"])


def arg_for(rng, v):
    if v.type == VT_INT:
        a = int_text(rng, 8 * v.size if v.size in (1, 2, 4) else None, True)
    elif v.type == VT_UINT:
        a = int_text(rng, 8 * v.size if v.size in (1, 2, 4) else None, False)
    elif v.type == VT_HEX:
        a = hex_text(rng, 8 * v.size if v.size in (1, 2, 4) else None)
    elif v.type == VT_BUFHEX:
        a = bufhex_text(rng, v.size)
    else:
        a = str_text(rng, v.size)
    if rng.random() < 0.12:
        a = mutate(rng, a)
    return a


def args_for(rng, c):
    vs = c.vars or []
    if not vs:
        return bytes(rng.choice(b"abc123,?= \"") for _ in range(rng.randint(0, 8)))
    k = rng.choice([len(vs), len(vs), len(vs), rng.randint(0, len(vs) + 1)])
    parts = []
    for i in range(k):
        v = vs[i] if i < len(vs) else rng.choice(vs)
        parts.append(arg_for(rng, v))
    return b",".join(parts)


def sprinkle_cr(rng, line):
    """line without the final LF; insert CRs at random places / CRLF ending"""
    r = rng.random()
    if r < 0.5:
        return line
    if r < 0.8:
        return line + b"\r"
    out = bytearray()
    for ch in line:
        if rng.random() < 0.15:
            out.append(13)
        out.append(ch)
    return bytes(out)


def rand_line(rng, sc):
    """one input line (with LF), mostly valid for the table"""
    r = rng.random()
    regs = [c for c in sc.cmds if c.group >= 0]
    if r < 0.08:
        body = bytes(rng.randrange(256) for _ in range(rng.randint(0, 10))).replace(b"\n", b"x")
        return body + b"\n"
    if r < 0.12:
        return rng.choice([b"\n", b"\r\n", b"\r\r\n", b"AT\n", b"AT\r\n", b"A\n", b"ATT\n", b"AT?\n", b"AT=\n", b"AT=?\n", b"at\n", b"aT\r\n"])
    c = rng.choice(regs)
    name = c.name.upper()
    r2 = rng.random()
    if r2 < 0.3 and len(name) > 1:
        name = name[:rng.randint(1, len(name))]
    elif r2 < 0.36:
        name = name + bytes([rng.choice(ALPHA)])
    elif r2 < 0.4:
        i = rng.randrange(len(name)) if name else 0
        name = name[:i] + bytes([rng.choice(b"!*( -.,/\x80\x01~`")]) + name[i:]
    name = rand_case(rng, name)
    suffix = rng.choice([b"", b"?", b"=", b"=?", b"=", b"="])
    tail = b""
    if suffix == b"=" or (c.implicit and rng.random() < 0.7):
        tail = args_for(rng, c)
        if c.implicit and rng.random() < 0.7:
            suffix = b""
    elif rng.random() < 0.1:
        tail = bytes(rng.choice(b"xyz?=1") for _ in range(rng.randint(1, 3)))
    if rng.random() < 0.04:
        tail += bytes(rng.choice(b"abcdefgh") for _ in range(rng.randint(sc.buf // 2, 3 * sc.buf)))
    if suffix == b"=" and rng.random() < 0.06:
        # arguments that begin with a NUL byte and contain the characters the parser gives a meaning to
        tail = b"\x00" + bytes(rng.choice(b"?=a1,\x00\"") for _ in range(rng.randint(1, 5)))
    prefix = rand_case(rng, b"AT")
    line = prefix + name + suffix + tail
    return sprinkle_cr(rng, line) + b"\n"


def rand_answer(rng, sc, terminal_bias=0.6, allow_hold=True):
    r = rng.random()
    if r < terminal_bias:
        ret = rng.choice(TERMINAL + [3, 0])
    elif r < 0.92:
        ret = rng.choice(CODES if allow_hold else [c for c in CODES if c != 4])
    else:
        ret = rng.choice([-2, 8, 100, -100])
    acts = []
    if rng.random() < 0.25:
        n = rng.randint(0, 12)
        acts.append("e:" + hx(bytes(rng.choice(b"abcdefXYZ:=,01 ") for _ in range(n))))
    if rng.random() < 0.1:
        acts.append("t:%d:%d" % (rng.randrange(len(sc.cmds)), rng.choice([1, 3])))
    if rng.random() < 0.06:
        acts.append("x:%d" % rng.choice([0, 0, -1, 1]))
    if rng.random() < 0.08 and sc.slots:
        sl = rng.randrange(len(sc.slots))
        ln = sc.slots[sl][0]
        if ln:
            off = rng.randrange(ln)
            n = rng.randint(1, ln - off)
            acts.append("p:%d:%d:%s" % (sl, off, hx(bytes(rng.randrange(256) for _ in range(n)))))
    return "/".join([str(ret)] + acts)


def rand_vanswer(rng, sc):
    ret = 0 if rng.random() < 0.85 else rng.choice([1, -1, 7])
    acts = []
    if rng.random() < 0.2 and sc.slots:
        sl = rng.randrange(len(sc.slots))
        ln = sc.slots[sl][0]
        if ln:
            off = rng.randrange(ln)
            n = rng.randint(1, ln - off)
            acts.append("p:%d:%d:%s" % (sl, off, hx(bytes(rng.randrange(256) for _ in range(n)))))
    return "/".join([str(ret)] + acts)


def svc_opts(rng, sc, p_fail_mutex=0.0, terminal_bias=0.6, allow_hold=True):
    o = []
    if rng.random() < 0.9:
        o.append("h=" + ",".join(rand_answer(rng, sc, terminal_bias, allow_hold) for _ in range(2)))
    if rng.random() < 0.5:
        o.append("v=" + ",".join(rand_vanswer(rng, sc) for _ in range(2)))
    if sc.mutex and rng.random() < p_fail_mutex:
        o.append(rng.choice(["lk=1", "ul=1", "lk=-1", "ul=5"]))
    return " ".join(o)


# ---------------------------------------------------------------- families

def g_mixed(rng, sid, nops=None, **kw):
    """General traffic: lines, schedules, events, hold, queries, flags, pokes."""
    sc = rand_desc(rng, sid, **kw)
    nops = nops or rng.randint(40, 400)
    p_r = rng.choice([1.0, 1.0, 0.9, 0.6])
    p_w = rng.choice([1.0, 1.0, 0.9, 0.5])
    for _ in range(rng.randint(1, 4)):
        sc.inp(rand_line(rng, sc))
    for _ in range(nops):
        r = rng.random()
        if r < 0.74:
            sc.op(("svc %d %d " % (rng.random() < p_r, rng.random() < p_w) + svc_opts(rng, sc, 0.05)).strip())
        elif r < 0.80:
            sc.inp(rand_line(rng, sc))
        elif r < 0.86:
            op = rng.choice(["trig %d %d" % (rng.randrange(len(sc.cmds)), rng.choice([1, 3])),
                             "trigr %d" % rng.randrange(len(sc.cmds)), "trigt %d" % rng.randrange(len(sc.cmds))])
            if sc.mutex and rng.random() < 0.1:
                op += rng.choice([" lk=1", " ul=1"])
            sc.op(op)
        elif r < 0.89:
            sc.op("hexit %d" % rng.choice([0, 0, -1, 1]) + (rng.choice([" lk=2", " ul=2"]) if sc.mutex and rng.random() < 0.1 else ""))
        elif r < 0.93:
            sc.op(rng.choice(["busy", "hold", "full"]) + (rng.choice([" lk=1", " ul=1"]) if sc.mutex and rng.random() < 0.1 else ""))
        elif r < 0.96:
            sc.op("buffered %d %d" % (rng.randrange(len(sc.cmds)), rng.choice([-1, 1, 3, 0, 2])))
        elif r < 0.98:
            regs = [i for i, c in enumerate(sc.cmds)]
            if rng.random() < 0.7:
                sc.op("flag c %d %s %d" % (rng.choice(regs), rng.choice(["dis", "ot"]), rng.random() < 0.5))
            else:
                sc.op("flag g %d %d" % (rng.randrange(len(sc.groups)), rng.random() < 0.5))
        else:
            if sc.slots:
                sl = rng.randrange(len(sc.slots))
                ln = sc.slots[sl][0]
                if ln:
                    off = rng.randrange(ln)
                    sc.op("poke %d %d %s" % (sl, off, hx(bytes(rng.randrange(256) for _ in range(rng.randint(1, ln - off))))))
    sc.op("drain 3000 1 1")
    return sc


def g_lines(rng, sid, **kw):
    """Eager processing of many lines with always-terminal handlers (no events)."""
    sc = rand_desc(rng, sid, **kw)
    for _ in range(rng.randint(3, 12)):
        sc.inp(rand_line(rng, sc))
        if rng.random() < 0.5:
            sc.op("drain 4000 1 1 h=%s v=%s" % (rng.choice(["3", "0", "-1", "3", "7", "1/e:4142", "2"]), rng.choice(["0", "0", "0", "1"])))
    sc.op("drain 6000 1 1")
    return sc


FAMILIES = {"mixed": g_mixed, "lines": g_lines}


def generate(seed, family, n, prefix=None, **kw):
    rng = random.Random((seed, family).__repr__())
    f = FAMILIES[family]
    return [f(rng, "%s-%d-%d" % (prefix or family, seed, i), **kw) for i in range(n)]
