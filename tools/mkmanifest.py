#!/usr/bin/env python3
"""Write MANIFEST.json from the property table (tools/proptable.py) and the theorems present."""
import json, os, sys
sys.path.insert(0, os.path.dirname(os.path.abspath(__file__)))
import lib, check, proptable

def main():
    checks = []
    na = []
    for pid in sorted(proptable.TABLE):
        t = proptable.TABLE[pid]
        thms = check.property_theorems(pid)
        if not thms:
            na.append({"property_id": pid, "reason": "no theorem committed yet for this property (correspondence and oracle checks exist in tools/check.py but are not a proof); see DESIGN.md"})
            continue
        checks.append({
            "property_id": pid,
            "quick_cmd": "python3 tools/check.py %s quick" % pid,
            "thorough_cmd": "python3 tools/check.py %s thorough" % pid,
            "evidence_file": "evidence/%s.json" % pid,
            "replay_cmd_template": "python3 tools/check.py %s --replay {path}" % pid,
            "engine": "lean4-model+correspondence",
            "level_claimed": {"category": "proof", "text": t["text"], "design_ref": t["ref"]},
            "level_note": t["note"],
            "technique": t["technique"],
        })
    m = {
        "version": 1,
        "setup_cmd": "python3 tools/setup.py",
        "hooks": {
            "guard": "CAT_VERIF",
            "enable": "none needed: struct cat_object is public and the ring capacity is the official build knob -DCAT_UNSOLICITED_CMD_BUFFER_SIZE; the harness is compiled with -DCAT_VERIF but /repo contains no guarded code",
            "baseline_off_cmd": "cmake -S /repo -B /repo/_build -G Ninja >/dev/null && cmake --build /repo/_build >/dev/null && ctest --test-dir /repo/_build -j8 --timeout 900",
            "source_commits": [],
            "add_only": True,
        },
        "engines": [
            {"name": "lean4-model+correspondence", "path": "lean/", "serves_properties": [c["property_id"] for c in checks],
             "kind_free_text": "Lean 4 theorems over a hand-written executable model of src/cat.c (lean/CatVerif), tied to the source by a translator for tables/expressions (tools/translate.py) and by differential execution of model and implementation on generated scenarios (harness/replay.c, lean/Driver/Main.lean, tools/check.py)"},
        ],
        "checks": checks,
        "not_applicable": na,
        "notes": "Fixed defects F1-F6 are recorded in known_findings.json (fixed entries suppress nothing); four findings (K1-K3: C03 at degenerate descriptors; K4: C02 when a disable flag is toggled twice inside one line; inputs under findings/) are recorded as known, not repaired: the C03 and C02 checks print one KNOWN-FINDING line for each and still report any other violation. DESIGN.md explains the approach, the trusted base and which seeded changes are caught by which check.",
    }
    json.dump(m, open(os.path.join(lib.VERIF, "MANIFEST.json"), "w"), indent=1)
    print("checks:", [c["property_id"] for c in checks], "not applicable:", [x["property_id"] for x in na])

if __name__ == "__main__":
    main()
