"""Trace analysis, per-property observations (projections of the trace that the
correspondence check compares between implementation and model) and per-property oracles
(independent references evaluated on the IMPLEMENTATION trace; used only to find failing
inputs, never to accept a property).  DESIGN.md sections 7.2, 9 and Appendix D."""
import sys
if hasattr(sys, "set_int_max_str_digits"):
    sys.set_int_max_str_digits(0)      # the reference parser reads numeric arguments of any length (family `wide`: 65 537 digits)
import re
from lib import unhx

OKP, ERRP = b"OK", b"ERROR"
NAMECH = set(b"ABCDEFGHIJKLMNOPQRSTUVWXYZ0123456789+#$@_%&")


def up(b):
    return bytes(c - 32 if 97 <= c <= 122 else c for c in b)


class Unit:
    __slots__ = ("fsm", "raw", "pre", "payload", "post", "start", "end", "complete")

    def __init__(self, fsm, raw, start):
        self.fsm, self.raw, self.start, self.end = fsm, raw, start, start
        self.pre, self.payload, self.post = bytearray(), bytearray(), bytearray()
        self.complete = False

    def is_code(self):
        return self.fsm == "c" and not self.raw and bytes(self.payload) in (OKP, ERRP)

    def __repr__(self):
        return "<%s%s %r%s>" % (self.fsm, "raw" if self.raw else "", bytes(self.pre + self.payload + self.post), "" if self.complete else " INCOMPLETE")


class An:
    """Everything the oracles need, extracted once from (scenario, trace)."""

    def __init__(self, scn, tr):
        self.scn, self.tr, self.lines = scn, tr, tr.lines
        self.optext = {}
        k = 0
        self.input = bytearray()
        self.in_at_op = {}      # opno -> total input length available before that op
        for o in scn.ops:
            if o.startswith("in "):
                self.input += unhx(o.split()[1])
            elif o.startswith(("hq ", "vq ", "refval ")):
                pass      # answer scripts are not operations: no trace line
            else:
                k += 1
                self.optext[k] = o
                self.in_at_op[k] = len(self.input)
        self.input = bytes(self.input)
        self.nops = k
        self.ev = []            # per trace line: list of parsed events
        self.reads = []         # (li, byte)
        self.outs = []          # (li, byte, fsm, part)
        self.handlers = []      # (li, kind, cmd, fsm, data, z, len, aux, ret)
        self.varcbs = []        # (li, cmd, idx, kind, size, ret)
        self.nested = []        # (li, 't'/'x', args, ret)
        self.bad = []           # unparsable events
        for li, l in enumerate(self.lines):
            pe = []
            for e in l.ev:
                try:
                    pe.append(self._parse(li, e))
                except Exception:
                    self.bad.append((li, e))
            self.ev.append(pe)
        self.units = self._units()
        self.uns_hold = any(h[3] == "u" and h[8] == 4 for h in self.handlers)

    def opno(self, li):
        return int(self.lines[li].op.split(".")[0])

    def op_of(self, li):
        return self.optext.get(self.opno(li), "")

    def is_svc(self, li):
        t = self.op_of(li)
        return t.startswith("svc") or t.startswith("drain")

    def _parse(self, li, e):
        k = e[0]
        if k == "L" or k == "U":
            return (k, int(e[2:]))
        if k == "R":
            if e == "R:-":
                return ("R", None)
            b = int(e[2:], 16)
            self.reads.append((li, b))
            return ("R", b)
        if k == "W":
            p = e.split(":")
            b, acc = int(p[1], 16), p[2] == "1"
            at = p[3] if len(p) > 3 else "??"
            if acc:
                self.outs.append((li, b, at[0], at[1]))
            return ("W", b, acc, at[0], at[1])
        if k == "H":
            body, ret = e.rsplit("=", 1)
            p = body.split(":")
            t = ("H", p[1], int(p[2]), p[3], bytes.fromhex(p[4]), p[5] == "z1", int(p[6]), int(p[7]), int(ret))
            self.handlers.append((li,) + t[1:])
            return t
        if k == "V":
            body, ret = e.rsplit("=", 1)
            p = body.split(":")
            t = ("V", int(p[1]), int(p[2]), p[3], int(p[4]), p[5] if len(p) > 5 else "?", int(ret))
            self.varcbs.append((li,) + t[1:])
            return t
        if k == "N":
            body, ret = e.rsplit("=", 1)
            p = body.split(":")
            t = ("N", p[1], tuple(int(x) for x in p[2:]), int(ret))
            self.nested.append((li,) + t[1:])
            return t
        raise ValueError(e)

    def _units(self):
        """Group accepted output bytes into units using the (machine, part) attribution."""
        units = []
        cur = {"c": None, "u": None}
        order = {"b": 0, "m": 1, "a": 2}
        last_part = {"c": None, "u": None}
        for (li, b, f, part) in self.outs:
            if f not in cur:
                u = Unit("?", False, li)
                u.payload.append(b)
                units.append(u)
                continue
            u = cur[f]
            lp = last_part[f]
            new = u is None or u.complete
            if not new:
                if part == "r":
                    new = not u.raw
                elif u.raw:
                    new = True
                elif order[part] < order[lp]:
                    new = True
            if new:
                u = Unit(f, part == "r", li)
                units.append(u)
                cur[f] = u
            if part == "r":
                u.payload.append(b)
                if b == 10:
                    u.complete = True
            elif part == "b":
                u.pre.append(b)
            elif part == "m":
                u.payload.append(b)
            else:
                u.post.append(b)
                if b == 10:
                    u.complete = True
            u.end = li
            last_part[f] = part
        return units

    def codes(self):
        return [u for u in self.units if u.is_code()]

    def outbytes(self, fsm=None):
        return bytes(b for (_, b, f, _) in self.outs if fsm is None or f == fsm)

    # ---- input lines as consumed -------------------------------------------------
    def consumed_lines(self):
        """[(text_without_LF, li_first_nonCR or None, li_LF)] for every LF consumed; text keeps CRs."""
        res = []
        cur = bytearray()
        first = None
        for (li, b) in self.reads:
            if b == 10:
                res.append((bytes(cur), first, li))
                cur = bytearray()
                first = None
            else:
                if first is None and b != 13:
                    first = li
                cur.append(b)
        self.partial = bytes(cur)
        return res

    def drained_ok(self):
        return bool(self.lines) and self.lines[-1].ret == 0 and self.is_svc(len(self.lines) - 1)


def nonblank(text):
    return any(c != 13 for c in text)


# =====================================================================================
# descriptor-level reference functions
# =====================================================================================

class Flags:
    """enable/disable/only_test flags as they evolve through `flag` operations"""

    def __init__(self, scn):
        self.cdis = [c.disable for c in scn.cmds]
        self.cot = [c.only_test for c in scn.cmds]
        self.gdis = [g[1] for g in scn.groups]

    def apply(self, optext):
        t = optext.split()
        if t[0] != "flag":
            return
        if t[1] == "c":
            if t[3] == "dis":
                self.cdis[int(t[2])] = t[4] == "1"
            else:
                self.cot[int(t[2])] = t[4] == "1"
        else:
            self.gdis[int(t[2])] = t[3] == "1"

    def enabled(self, scn, i):
        c = scn.cmds[i]
        return c.group >= 0 and not self.cdis[i] and not self.gdis[c.group]


def flags_timeline(an):
    """flags in force at each trace line index (after applying flag ops before it)"""
    fl = Flags(an.scn)
    out = []
    done = 0
    import copy
    for li in range(len(an.lines)):
        k = an.opno(li)
        while done < k:
            done += 1
            if an.optext[done].startswith("flag") and done < k:
                fl.apply(an.optext[done])
        snap = Flags.__new__(Flags)
        snap.cdis, snap.cot, snap.gdis = list(fl.cdis), list(fl.cot), list(fl.gdis)
        out.append(snap)
        if an.optext[k].startswith("flag") and "." not in an.lines[li].op:
            fl.apply(an.optext[k])
            done = k
    return out


def resolve(scn, fl, typed):
    """reference name resolution: first enabled exact match, else unique enabled proper extension"""
    typed = up(typed)
    regs = [i for i, c in enumerate(scn.cmds) if fl.enabled(scn, i)]
    for i in regs:
        if up(scn.cmds[i].name) == typed:
            return i
    ext = [i for i in regs if len(scn.cmds[i].name) > len(typed) and up(scn.cmds[i].name[:len(typed)]) == typed]
    return ext[0] if len(ext) == 1 else None


def vars_accessible(c, acc):
    return c.vars is not None and any(v.acc == 0 or v.acc == acc for v in c.vars)


def classify(scn, fl, text):
    """Reference reading of one input line (LF removed, CRs still inside).
    Returns dict(kind=..., cmd=idx|None, type='run'|'read'|'write'|'test'|None, args=bytes, expect=...)
      kind: 'blank' | 'garbage' | 'empty' (AT alone -> OK) | 'cmd'
    """
    t = bytes(c for c in text if c != 13)
    if not t:
        return {"kind": "blank"}
    if up(t[:1]) != b"A":
        return {"kind": "garbage"}
    if up(t[1:2]) != b"T":
        return {"kind": "garbage"}
    rest = t[2:]
    name = bytearray()
    i = 0
    while True:
        if i == len(rest):
            if not name:
                return {"kind": "empty"}
            return {"kind": "cmd", "typed": bytes(name), "type": "run", "cmd": resolve(scn, fl, name), "args": b""}
        ch = rest[i]
        if ch == 63:  # ?
            if not name:
                return {"kind": "garbage"}
            if rest[i + 1:]:
                return {"kind": "garbage"}
            return {"kind": "cmd", "typed": bytes(name), "type": "read", "cmd": resolve(scn, fl, name), "args": b""}
        if ch == 61:  # =
            if not name:
                return {"kind": "garbage"}
            return _write(scn, fl, bytes(name), rest[i + 1:], False)
        cu = ch - 32 if 97 <= ch <= 122 else ch
        if cu not in NAMECH:
            return {"kind": "garbage"}
        name.append(cu)
        i += 1
        # implicit write: typed name equals an enabled implicit-write command
        for k, c in enumerate(scn.cmds):
            if fl.enabled(scn, k) and c.implicit and up(c.name) == bytes(name):
                return _write(scn, fl, bytes(name), rest[i:], True)


def _write(scn, fl, name, args, implicit):
    cmd = resolve(scn, fl, name)
    r = {"kind": "cmd", "typed": name, "type": "write", "cmd": cmd, "args": args, "implicit": implicit}
    if cmd is None:
        return r
    c = scn.cmds[cmd]
    if args[:1] == b"?" and (("t" in c.h) or (c.vars is not None and len(c.vars) > 0)) and not c.implicit:
        if args[1:]:
            return {"kind": "garbage", "typed": name, "cmd": cmd, "late": True}
        r["type"] = "test"
        r["args"] = b""
    return r


# ---- argument grammars (Python big integers) ---------------------------------------

def ref_parse_var(v, buf, pos):
    """Reference parser for one variable at buf[pos:] where buf is the NUL-terminated argument text.
    Returns (status, newpos, value): status -1 reject, 0 accepted+end, 1 accepted+comma.
    value: int for numeric types, bytes for buffers (decoded)."""
    def term(p):
        if p < len(buf) and buf[p] == 44:
            return 1, p + 1
        if p == len(buf):
            return 0, p + 1
        return -1, p
    t = v.type
    if t in (0, 1):
        p = pos
        sign = 1
        if t == 0 and p < len(buf) and buf[p] in (43, 45):
            sign = -1 if buf[p] == 45 else 1
            p += 1
        q = p
        while q < len(buf) and 48 <= buf[q] <= 57:
            q += 1
        if q == p:
            return -1, p, None
        st, np = term(q)
        if st < 0:
            return -1, q, None
        return st, np, sign * int(buf[p:q])
    if t == 2:
        if not (pos + 1 < len(buf) and buf[pos] == 48 and buf[pos + 1] in (120, 88)):
            return -1, pos, None
        p = pos + 2
        q = p
        while q < len(buf) and (48 <= buf[q] <= 57 or 65 <= buf[q] <= 70 or 97 <= buf[q] <= 102):
            q += 1
        if q == p:
            return -1, p, None
        st, np = term(q)
        if st < 0:
            return -1, q, None
        return st, np, int(buf[p:q], 16)
    if t == 3:
        q = pos
        while q < len(buf) and (48 <= buf[q] <= 57 or 65 <= buf[q] <= 70 or 97 <= buf[q] <= 102):
            q += 1
        n = q - pos
        if n == 0 or n % 2:
            return -1, q, None
        st, np = term(q)
        if st < 0:
            return -1, q, None
        return st, np, bytes.fromhex(buf[pos:q].decode())
    # string
    if not (pos < len(buf) and buf[pos] == 34):
        return -1, pos, None
    p = pos + 1
    out = bytearray()
    while True:
        if p >= len(buf) or buf[p] == 0:
            return -1, p, None
        ch = buf[p]
        if ch == 92:
            if p + 1 >= len(buf):
                return -1, p, None
            e = buf[p + 1]
            if e == 92:
                out.append(92)
            elif e == 34:
                out.append(34)
            elif e == 110:
                out.append(10)
            else:
                return -1, p, None
            p += 2
        elif ch == 34:
            p += 1
            break
        else:
            out.append(ch)
            p += 1
    st, np = term(p)
    if st < 0:
        return -1, p, None
    return st, np, bytes(out)


def ref_fits(v, val):
    """(accepted, stored bytes or None) for a writable variable"""
    t = v.type
    if t in (0, 1, 2):
        if v.size not in (1, 2, 4):
            return False, None
        bits = 8 * v.size
        if t == 0:
            if not (-(1 << (bits - 1)) <= val <= (1 << (bits - 1)) - 1):
                return False, None
            return True, (val % (1 << bits)).to_bytes(v.size, "little")
        if not (0 <= val <= (1 << bits) - 1):
            return False, None
        return True, val.to_bytes(v.size, "little")
    if t == 3:
        if len(val) > v.size:
            return False, None
        return True, val
    if len(val) > v.size - 1:
        return False, None
    return True, val + b"\0"


def fmt_var(v, data):
    """reference READ text of a variable holding `data` (slot bytes)"""
    t = v.type
    if t in (0, 1, 2):
        if v.size not in (1, 2, 4):
            return None
        raw = int.from_bytes(data[:v.size], "little")
        if v.acc == 2:
            raw = 0
        if t == 0:
            bits = 8 * v.size
            val = raw - (1 << bits) if raw >= 1 << (bits - 1) else raw
            return str(val).encode()
        if t == 1:
            return str(raw).encode()
        return ("0x%0*X" % (2 * v.size, raw)).encode()
    if t == 3:
        d = bytes(v.size) if v.acc == 2 else data[:v.size]
        return d.hex().upper().encode()
    d = b"" if v.acc == 2 else data[:v.size]
    d = d.split(b"\0")[0]
    return b'"' + d.replace(b"\\", b"\\\\").replace(b'"', b'\\"').replace(b"\n", b"\\n") + b'"'


TYPE_NAMES = {0: "INT", 1: "UINT", 2: "HEX"}


def info_token(v):
    if v.type in TYPE_NAMES:
        if v.size not in (1, 2, 4):
            return None
        tn = "%s%d" % (TYPE_NAMES[v.type], 8 * v.size)
    else:
        tn = "HEXBUF" if v.type == 3 else "STRING"
    acc = ["RW", "RO", "WO"][v.acc]
    return b"<" + ((v.name + b":") if v.name is not None else b"") + tn.encode() + b"[" + acc.encode() + b"]>"


def accepts(scn, fl, i, form):
    """would the dispatcher go past the availability checks for command i and request form?"""
    c = scn.cmds[i]
    ot = fl.cot[i]
    if form == "run":
        return not ot and "x" in c.h
    if form == "read":
        return not ot and ("r" in c.h or vars_accessible(c, 1))
    if form == "write":
        return not ot and ("w" in c.h or vars_accessible(c, 2))
    return ("t" in c.h or (c.vars is not None and len(c.vars) > 0)) and not c.implicit
