"""Per-property texts for MANIFEST.json (level claimed, trusted base note, technique)."""

COMMON_NOTE = ("Trusted: Lean 4.33 kernel with axioms propext/Classical.choice/Quot.sound only; that the statements in "
               "lean/CatVerif/Properties and lean/CatVerif/Spec say what the property says; the translator (tools/translate.py) for the "
               "generated tables and expressions; the correspondence check (sampling under ASan/UBSan, not proof) for every hand-written "
               "definition in lean/CatVerif/Model; gcc/libc/x86-64 as modelled. Domain restrictions: DESIGN.md 2.3.")


def e(text, ref, technique, note=""):
    return {"text": text, "ref": ref, "technique": technique, "note": (note + " " + COMMON_NOTE).strip()}


TABLE = {
    "C01": e("Lean theorems over the model for every history of API calls (C01_one_code_per_line): result codes started + code still owed = lines begun + code owed at the start, with at most one owed at any time; the line coupling (behind a line's LF the last consumed byte is that LF, so no parser exit acknowledges before the LF) and the hold coupling are invariants; no input is consumed behind the LF; IDLE is re-entered only behind a completely emitted result code. Liveness is sampled (C15). Model tied to cat.c by per-call differential traces; an independent oracle on the implementation trace supplies failing inputs.",
             "DESIGN.md 8 C01, Appendix B.1", "Lean 4 invariant by induction over operation sequences + differential correspondence"),
    "C02": e("Lean theorems: character classes regenerated from the source and proved over all 256 bytes; the 2-bit lane algebra; a whole sweep of update_command over a table of any size computes every entry's match state against the typed name (C02_sweep); the search loop returns exactly the specification's `resolve` (first full match, else unique partial match, else ERROR; C02_search with a declarative characterisation); the request type is fixed by the suffix alone and each loop step invokes exactly one handler of its type for the selected command.",
             "DESIGN.md 8 C02", "Lean 4 refinement of the lane/search loops to a name-resolution spec + translator + correspondence"),
    "C03": e("PARTIAL. Lean theorems: along every history of API calls from cat_init no undefined operation is performed (C03_no_undefined_operation: table cursor inside the table, a command selected wherever it is dereferenced, variable cursors inside the variable lists, print cursors within capacity, both machines; invariants UbInv/UbInvU); buffer geometry from the generated size expressions; a store faults iff outside the acting machine's region and then stores nothing; one step of either machine leaves the other machine's region unchanged (all states, inputs, handler answers); print primitives, result-code copy, argument collection and in-range variable stores never raise the model's fault flags. The out-of-bounds flag is not proved to stay false along every history; that the compiled C performs those accesses and no others is sampled by the ASan/UBSan-instrumented correspondence run with exact-size allocations.",
             "DESIGN.md 8 C03, 13", "Lean 4 bounds lemmas on a fault-flag model + sanitizer-instrumented differential runs",
             "Partial by nature: a theorem cannot exhibit memory accesses of compiled code."),
    "C04": e("Lean theorems by induction over the argument text (any length): each numeric parser accepts exactly the type's grammar with the exact mathematical value, the 64-bit accumulators never wrap under the guards, range validation is exactly `fits`, a rejected text stores nothing.",
             "DESIGN.md 8 C04", "Lean 4 induction over digit lists (parser = grammar and value) + correspondence"),
    "C05": e("Lean theorems by induction over the text: the hex-buffer and string decoders accept exactly the specified grammars, store exactly the decoded bytes, report the decoded length, and never store at an index >= data_size (also on rejected texts).",
             "DESIGN.md 8 C05", "Lean 4 induction over the argument text (decoder = unescape/hexPairs, store-index bound) + correspondence"),
    "C06": e("Lean theorems: the argument-collection invariant ArgsInv (the command buffer holds exactly the CR-free bytes sent, case preserved, NUL-terminated, exact length) is established at '=' / implicit write, extended by every byte iff it and its terminator fit, otherwise the machine enters the inert ERROR state (no handler, no store, ERROR at the LF); variable parsing keeps the text; the write handler event carries exactly text, length and parsed-variable count; read/test handler events of both machines carry their own region's C string, position and capacity.",
             "DESIGN.md 8 C06", "Lean 4 phase lemma by induction over the input + correspondence"),
    "C07": e("Lean theorems: parse(format v) = v for all values of the five variable types (decimal signed/unsigned, fixed-width hex, hex buffers, escaped strings without NUL), by induction / strong induction with no bound on width.",
             "DESIGN.md 8 C07", "Lean 4 round-trip laws (format then parse is the identity) + correspondence incl. snprintf agreement"),
    "C08": e("Lean theorems: no decoder/validator path stores into a read-only variable (storage unchanged, for accepted and rejected texts); formatters of write-only variables do not depend on the stored bytes; gate decisions for READ/WRITE without accessible variables.",
             "DESIGN.md 8 C08", "Lean 4 function-level non-interference and write-set theorems + correspondence"),
    "C09": e("Lean theorems: a disabled command (or one of a disabled group) always reads as NOT_MATCH, hence is never selected, never counted as a partial match; dispatcher decision theorems for only_test and handler-less forms.",
             "DESIGN.md 8 C09", "Lean 4 decision theorems over the dispatcher and the match-state reader + correspondence"),
    "C10": e("Lean theorems over the return-code tables regenerated from the four switch statements: for every integer code and both machines the next step is exactly what the documented table (`respSpec`) prescribes.",
             "DESIGN.md 8 C10, Appendix G", "Lean 4 case analysis over translator-generated switch tables against a response-spec interpreter + correspondence"),
    "C11": e("Lean theorems for every operation history: the two machines are never both in FLUSH_IO_WRITE (mutual exclusion of output), and every output byte is written by the machine in that state; for the command machine, a started unit is line break ++ buffer text ++ line break (result codes exactly OK/ERROR), each write step moves one accepted byte from the head of the remaining unit to the output and nothing else, the state is left exactly when nothing remains, and no step of the other machine changes the remainder (C11_service_unit).",
             "DESIGN.md 8 C11, Appendix B.2", "Lean 4 invariant by induction over operation sequences + correspondence"),
    "C12": e("Lean stutter theorems: a service step in which the read is refused / the write is refused leaves the acting machine's state unchanged (nothing but the refusal is observable), for every state.",
             "DESIGN.md 8 C12", "Lean 4 stutter lemmas per state + differential schedules"),
    "C13": e("Lean theorems: the ring refines a bounded FIFO for any capacity and any number of laps (push accepted iff fewer than capacity waiting; pop returns the oldest), the invariant holds along every operation history, `full` predicts `trigger`; and at trace level (C13_fifo_exactly_once) over any history, nested triggers included: accepted events = events handed to the unsolicited machine ++ events still waiting, in acceptance order.",
             "DESIGN.md 8 C13", "Lean 4 data refinement (ring -> abstract queue) + invariant over all histories + correspondence at capacities 1,2,3,8"),
    "C14": e("Lean theorems for every operation history without HOLD from event handlers: hold flag <-> HOLD state; while held no input is read and no result code started; release requests outside hold return ERROR_NOT_HOLD and change nothing.",
             "DESIGN.md 8 C14, Appendix B.3", "Lean 4 invariant by induction over operation sequences + correspondence"),
    "C15": e("Lean theorems: if cat_service returns OK both machines are idle and the ring is empty, and a repeated call with no new input returns OK with no write, no callback and the same state (generated status merge incl. the F4 repair). Liveness (bounded number of calls) is sampled, not proved.",
             "DESIGN.md 8 C15", "Lean 4 theorem over the generated status merge and the idle steps + differential drain runs",
             "The liveness half (ranking function) is not proved: PARTIAL."),
    "C16": e("Lean theorems: every locking API function is `withMutex body` (shape regenerated from the source); for all states and lock/unlock answers the events are lock alone (state unchanged, ERROR_MUTEX_LOCK) or lock, body, unlock with ERROR_MUTEX_UNLOCK iff unlock failed.",
             "DESIGN.md 8 C16", "Lean 4 structural bracket theorem + translator (lock/body/unlock shape) + correspondence with failing locks"),
    "C17": e("PARTIAL. Lean theorems over an abstract lock semantics (threads running lock;body;unlock operations): mutual exclusion of bodies and linearizability to a sequential history, to which C13 applies. The C memory model, the real lock and the scheduler are outside Lean; every check builds harness/threads.c with ThreadSanitizer from the working tree and runs 1-8 producer threads against one service thread with a real pthread mutex at ring capacities 1, 2 and 8 (no race report; accepted triggers = delivered events per producer), plus a control run without mutex in which the detector must fire.",
             "DESIGN.md 8 C17, 13", "Lean 4 abstract lock semantics (mutual exclusion, linearizability) + TSan thread stress",
             "Partial by nature: thread scheduling and the C memory model are not in the model."),
    "C18": e("Lean theorems: with the generated is_busy/is_hold, is_busy = OK implies both machines idle, which by the line-coupling and flush invariants means no partial non-blank line, nothing outstanding and no unit in progress; is_hold = HOLD iff the command machine is in HOLD.",
             "DESIGN.md 8 C18", "Lean 4 soundness theorem via state-machine invariants + correspondence sampling the queries after every call"),
    "C19": e("Lean theorems: the info token text for every type/width/access, and the command-list availability test per request form equals the dispatcher's acceptance test (for enabled, non-implicit-with-variables commands).",
             "DESIGN.md 8 C19", "Lean 4 decision/text theorems + correspondence on descriptor sweeps"),
    "C20": e("Lean theorems: every path back to IDLE clears the per-line flags (cr_flag, implicit_write_flag on the proved paths) and all line-scratch fields are rewritten before use; the newline of every unit is chosen from cr_flag alone.",
             "DESIGN.md 8 C20, Appendix B.5", "Lean 4 idle-equivalence lemmas + differential concatenated-vs-separate runs"),
}
