#!/usr/bin/env python3
"""Offline setup after a fresh restore: regenerate the translated definitions, build the Lean
library and the driver, build the harness binaries for the four ring capacities."""
import os, sys
sys.path.insert(0, os.path.dirname(os.path.abspath(__file__)))
import lib, translate

def main():
    print("translator:", translate.regenerate())
    ok, out = lib.lake_build(("CatVerif", "catdrv"))
    print(out[-2000:])
    if not ok:
        print("lake build failed")
        sys.exit(1)
    bins = lib.build_harness()
    print("harness:", bins)

if __name__ == "__main__":
    main()
