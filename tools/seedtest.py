#!/usr/bin/env python3
"""seedtest.py verify <Cxx> <a|b>     confirm a sub-agent's change (build, tests, demo) in its scratch worktree
   seedtest.py detect <id> [props]   run the quick checks against seeded/<id>/patch.diff applied to a scratch worktree
   seedtest.py all                   both, for everything under /tmp/mut/out, 4 at a time
Results go to seeded/<id>/meta.json."""
import json, os, re, shutil, subprocess, sys, time
from concurrent.futures import ThreadPoolExecutor
sys.path.insert(0, os.path.dirname(os.path.abspath(__file__)))
VERIF = os.path.dirname(os.path.dirname(os.path.abspath(__file__)))
MUT = "/tmp/mut"
SEED_OUT = os.environ.get("SEED_OUT", os.path.join(VERIF, "seeded"))
ALL = ["C%02d" % i for i in range(1, 21)]
EXTRA = {"C13-a": ["-DCAT_UNSOLICITED_CMD_BUFFER_SIZE=3"], "C15-a": ["-DCAT_UNSOLICITED_CMD_BUFFER_SIZE=2"],
         "C17-a": ["-pthread"], "C17-b": ["-pthread"], "C17-c": ["-pthread"], "C17-d": ["-pthread"]}


def sh(cmd, **kw):
    return subprocess.run(cmd, stdout=subprocess.PIPE, stderr=subprocess.STDOUT, text=True, **kw)


def wt_for(tag):
    d = os.path.join(MUT, "wt-" + tag)
    if not os.path.isdir(d):
        sh(["git", "-C", "/repo", "worktree", "add", "-q", "--detach", d, "HEAD"])
    return d


def verify(pid, x):
    out = os.path.join(MUT, "out", pid)
    mid = "%s-%s" % (pid, x)
    patch = os.path.join(out, x + ".patch.diff")
    demo = os.path.join(out, x + ".demo.c")
    if not (os.path.exists(patch) and os.path.exists(demo)):
        # already accepted earlier: re-verify from the kept copy
        patch = os.path.join(SEED_OUT, mid, "patch.diff")
        demo = os.path.join(SEED_OUT, mid, "demo.c")
    if not (os.path.exists(patch) and os.path.exists(demo)):
        return {"id": mid, "verified": False, "why": "missing files"}
    wt = wt_for(mid)
    sh(["git", "-C", wt, "checkout", "--", "."])
    res = {"id": mid, "property": pid}
    flags = list(EXTRA.get(mid, []))
    for nf in (os.path.join(out, x + ".notes.md"), os.path.join(SEED_OUT, mid, "notes.md")):
        if os.path.exists(nf):
            m = re.search(r"^\W*flags:\s*`?([^`\n]*)`?", open(nf).read(), flags=re.M)
            if m:
                flags += [f for f in m.group(1).split() if f.startswith("-")]
            break
    exe = os.path.join(MUT, "demo-" + mid)

    def run_demo():
        c = sh(["gcc", "-I" + wt + "/src", demo, wt + "/src/cat.c", "-o", exe] + flags)
        if c.returncode != 0:
            return None, c.stdout[-400:]
        try:
            r = sh([exe], timeout=120)
        except subprocess.TimeoutExpired:
            return 124, "timeout"
        return r.returncode, r.stdout[-400:]
    res["demo_clean"], _ = run_demo()
    a = sh(["git", "-C", wt, "apply", patch])
    if a.returncode != 0:
        res.update(verified=False, why="patch does not apply: " + a.stdout[-200:])
        return res
    b = sh("cmake -S %s -B %s/_build -G Ninja >/dev/null && cmake --build %s/_build 2>&1 | tail -5 && ctest --test-dir %s/_build -j8 2>&1 | tail -3" % (wt, wt, wt, wt), shell=True)
    res["tests"] = "100% tests passed" in b.stdout and "out of 30" in b.stdout
    res["tests_out"] = b.stdout[-300:]
    res["demo_changed"], res["demo_out"] = run_demo()
    shutil.rmtree(os.path.join(wt, "_build"), ignore_errors=True)
    if os.path.exists(exe):
        os.remove(exe)
    res["verified"] = bool(res["tests"] and res["demo_clean"] == 0 and res["demo_changed"] not in (0, None))
    d = os.path.join(SEED_OUT, mid)
    if res["verified"]:
        os.makedirs(d, exist_ok=True)
        if os.path.abspath(patch) != os.path.abspath(os.path.join(d, "patch.diff")):
            shutil.copy(patch, os.path.join(d, "patch.diff"))
            shutil.copy(demo, os.path.join(d, "demo.c"))
        notes = os.path.join(out, x + ".notes.md")
        if os.path.exists(notes):
            shutil.copy(notes, os.path.join(d, "notes.md"))
    # leave the patch applied in the worktree for `detect`
    return res


import threading
_worker_dirs = {}
_wlock = threading.Lock()


def lean_dir_for_worker():
    """each worker thread gets its own copy of the Lean project (the translator rewrites Gen/Source.lean per source tree)"""
    tid = threading.get_ident()
    with _wlock:
        if tid not in _worker_dirs:
            d = os.path.join(MUT, "lean-%d" % len(_worker_dirs))
            if not os.path.isdir(d):
                sh(["rsync", "-a", os.path.join(VERIF, "lean") + "/", d + "/"])
            _worker_dirs[tid] = d
    return _worker_dirs[tid]


def detect(mid, plist=None):
    """patch applied in /tmp/mut/wt-<mid>; run quick checks with CAT_REPO pointing there"""
    wt = wt_for(mid)
    d = os.path.join(SEED_OUT, mid)
    st = sh(["git", "-C", wt, "status", "--short"]).stdout
    if "src/" not in st:
        sh(["git", "-C", wt, "checkout", "--", "."])
        a = sh(["git", "-C", wt, "apply", os.path.join(d, "patch.diff")])
        if a.returncode != 0:
            return {"error": "apply failed"}
    res = {}
    env = dict(os.environ, CAT_REPO=wt, VERIF_NO_EVIDENCE="1", VERIF_REPLAY_DIR=os.path.join(MUT, "replays", mid), VERIF_LEAN=lean_dir_for_worker())
    for p in (plist or ALL):
        t = time.time()
        r = subprocess.run([sys.executable, os.path.join(VERIF, "tools/check.py"), p, "quick"], stdout=subprocess.PIPE, stderr=subprocess.PIPE, text=True, env=env, cwd=VERIF)
        lines = [l for l in r.stdout.splitlines() if l.startswith("VIOLATION")]
        kind = "-"
        if r.returncode == 1 and lines:
            kind = "nofail" if lines[0].endswith("no-failing-input-found") else "VIOL"
        elif r.returncode != 0:
            kind = "ERR%d" % r.returncode
            res[p + "_err"] = (r.stderr or "")[-400:]
        res[p] = kind
        if kind != "-" and lines:
            # keep the replay note next to the seeded change
            m = re.search(r"replay=(\S+)", lines[0])
            if m and os.path.exists(m.group(1)):
                notes = [l for l in open(m.group(1)).read().splitlines() if l.startswith("note")]
                res[p + "_note"] = " | ".join(notes[:3])[:500]
    return res


def one(job):
    pid, x = job
    mid = "%s-%s" % (pid, x)
    v = verify(pid, x)
    det = None
    if v.get("verified"):
        det = detect(mid)
    wt = os.path.join(MUT, "wt-" + mid)
    sh(["git", "-C", "/repo", "worktree", "remove", "--force", wt])
    meta = {"id": mid, "breaks": pid, "verify": v, "detect": det,
            "ran": "tools/seedtest.py: patch applied to a scratch worktree of /repo HEAD; cmake build with the project's -Werror flags; ctest 30/30; demo exit 0 on clean tree and non-zero with the patch; then every property's quick check with CAT_REPO pointing at the patched worktree"}
    if v.get("verified"):
        json.dump(meta, open(os.path.join(SEED_OUT, mid, "meta.json"), "w"), indent=1)
    return meta


def main():
    if sys.argv[1] == "verify":
        print(json.dumps(verify(sys.argv[2], sys.argv[3]), indent=1))
    elif sys.argv[1] == "detect":
        print(json.dumps(detect(sys.argv[2], sys.argv[3:] or None), indent=1))
    elif sys.argv[1] == "all":
        letters = os.environ.get("SEED_LETTERS", "abcd")
        jobs = [(p, x) for p in (sys.argv[2:] or ALL) for x in letters
                if os.path.exists(os.path.join(MUT, "out", p, x + ".patch.diff")) or os.path.isdir(os.path.join(SEED_OUT, "%s-%s" % (p, x)))]
        with ThreadPoolExecutor(max_workers=4) as ex:
            for m in ex.map(one, jobs):
                v = m["verify"]
                det = m["detect"] or {}
                hits = [p for p in ALL if det.get(p, "-") != "-"]
                print("%s verified=%s demo=%s/%s tests=%s target=%s hits=%s" % (m["id"], v.get("verified"), v.get("demo_clean"), v.get("demo_changed"), v.get("tests"), det.get(m["breaks"]), ",".join("%s:%s" % (p, det[p]) for p in hits)), flush=True)


if __name__ == "__main__":
    main()
